/* Contract stub for the static BF_crypt of crypt-bcrypt.c (body removed from the real
   unit), used to check the real BF_full_crypt / crypt_bcrypt*_rn wrappers around it.
   Contract (checked of the real BF_crypt by harness/bf_crypt.c): on rejection errno
   = EINVAL, output untouched; on success output = the setting's first 28 characters,
   a canonicalised 29th, 31 alphabet characters and a NUL, exactly 61 bytes.  */
#include "crypt-port.h"
#include <errno.h>
#include <stdbool.h>
#include "vf.h"
unsigned vf_bf_calls;
bool __CPROVER_file_local_crypt_bcrypt_c_BF_crypt(const char *key, const char *setting, unsigned char *output, void *data, uint32_t min)
{
  vf_bf_calls++;
  __CPROVER_assert(__CPROVER_w_ok(output, 61), "C04: BF_crypt output buffer holds BF_HASH_LENGTH bytes");
  if (nondet_bool()) { errno = EINVAL; return false; }
  for (int i = 0; i < 28; i++) output[i] = (unsigned char)setting[i];
  for (int i = 28; i < 60; i++) {
    unsigned char v = nondet_uchar();
    output[i] = (unsigned char)"./ABCDEFGHIJKLMNOPQRSTUVWXYZabcdefghijklmnopqrstuvwxyz0123456789"[v & 63];
  }
  output[60] = 0;
  return true;
}
