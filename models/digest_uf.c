/* UF (uninterpreted-function) models of the digest kernels for the relational
   properties C01 (round trip), C07 (purity), C03 (no false accept).

   A context holds a 64-bit accumulator; Update(ctx,p,len) absorbs the input in
   chunks of UF_CHUNK bytes: acc = absorb(acc, n, w0, w1) with the chunk's bytes
   zero-padded into two 64-bit words; Final emits digest words out(acc, i) and
   zeroes the context.  An assertion that holds for EVERY interpretation of
   absorb/out holds for the real digest (which is one such interpretation, up
   to how it chunks its input - the chunking is a function of the call sequence
   only); two runs produce provably equal outputs exactly when they feed the same
   bytes with the same call structure.  */
#include "crypt-port.h"
#include "alg-md4.h"
#include "alg-md5.h"
#include "alg-sha256.h"
#include "alg-sha512.h"
#include "alg-hmac-sha1.h"
#include "alg-sha1.h"
#include "vf.h"

#define UF_CHUNK 16
uint64_t __CPROVER_uninterpreted_absorb(uint64_t acc, uint64_t n, uint64_t w0, uint64_t w1);
uint64_t __CPROVER_uninterpreted_out(uint64_t acc, uint64_t i);

#ifdef UF_LOG
/* C03: log of absorb applications for the injectivity axiom (instantiated by the harness) */
#ifndef UF_LOG_MAX
#define UF_LOG_MAX 40
#endif
uint64_t vf_ab_acc[UF_LOG_MAX], vf_ab_n[UF_LOG_MAX], vf_ab_w0[UF_LOG_MAX], vf_ab_w1[UF_LOG_MAX], vf_ab_res[UF_LOG_MAX];
unsigned vf_ab_cnt;
uint64_t vf_out_acc[UF_LOG_MAX], vf_out_i[UF_LOG_MAX], vf_out_res[UF_LOG_MAX];
unsigned vf_out_cnt;
#endif

static uint64_t absorb(uint64_t acc, const void *data, size_t len)
{
  const unsigned char *p = data;
  /* a zero-length update does not change a hash state */
  if (len == 0) return acc;
  size_t off = 0;
  do {
    size_t n = len - off < UF_CHUNK ? len - off : UF_CHUNK;
    uint64_t w0 = 0, w1 = 0;
    for (size_t i = 0; i < 8; i++) if (i < n) w0 |= (uint64_t)p[off + i] << (8 * i);
    for (size_t i = 0; i < 8; i++) if (8 + i < n) w1 |= (uint64_t)p[off + 8 + i] << (8 * i);
    uint64_t r = __CPROVER_uninterpreted_absorb(acc, n, w0, w1);
#ifdef UF_LOG
    if (vf_ab_cnt < UF_LOG_MAX) { vf_ab_acc[vf_ab_cnt] = acc; vf_ab_n[vf_ab_cnt] = n; vf_ab_w0[vf_ab_cnt] = w0; vf_ab_w1[vf_ab_cnt] = w1; vf_ab_res[vf_ab_cnt] = r; }
    vf_ab_cnt++;
#endif
    acc = r;
    off += n;
  } while (off < len);
  return acc;
}

static void emit(uint64_t acc, uint8_t *out, size_t n)
{
  for (size_t w = 0; w * 8 < n; w++) {
    uint64_t v = __CPROVER_uninterpreted_out(acc, w);      /* one application per digest word */
#ifdef UF_LOG
    if (vf_out_cnt < UF_LOG_MAX) { vf_out_acc[vf_out_cnt] = acc; vf_out_i[vf_out_cnt] = w; vf_out_res[vf_out_cnt] = v; }
    vf_out_cnt++;
#endif
    for (size_t j = 0; j < 8; j++) if (w * 8 + j < n) out[w * 8 + j] = (uint8_t)(v >> (8 * j));
  }
}

#define ACC(ctx, lo_, hi_) (((uint64_t)(ctx)->hi_ << 32) | (ctx)->lo_)
#define SETACC(ctx, lo_, hi_, v) do { (ctx)->lo_ = (uint32_t)(v); (ctx)->hi_ = (uint32_t)((v) >> 32); } while (0)

#ifdef M_MD5
void MD5_Init(MD5_CTX *ctx) { memset(ctx, 0, sizeof *ctx); SETACC(ctx, lo, hi, 0x4d4435ULL); }
void MD5_Update(MD5_CTX *ctx, const void *data, size_t size) { uint64_t a = absorb(ACC(ctx, lo, hi), data, size); SETACC(ctx, lo, hi, a); }
void MD5_Final(uint8_t result[16], MD5_CTX *ctx) { emit(ACC(ctx, lo, hi), result, 16); memset(ctx, 0, sizeof *ctx); }
#endif
#ifdef M_MD4
void MD4_Init(MD4_CTX *ctx) { memset(ctx, 0, sizeof *ctx); SETACC(ctx, lo, hi, 0x4d4434ULL); }
void MD4_Update(MD4_CTX *ctx, const void *data, size_t size) { uint64_t a = absorb(ACC(ctx, lo, hi), data, size); SETACC(ctx, lo, hi, a); }
void MD4_Final(uint8_t result[16], MD4_CTX *ctx) { emit(ACC(ctx, lo, hi), result, 16); memset(ctx, 0, sizeof *ctx); }
#endif
#ifdef M_SHA256
void SHA256_Init(SHA256_CTX *ctx) { memset(ctx, 0, sizeof *ctx); ctx->count = 0x53323536ULL; }
void SHA256_Update(SHA256_CTX *ctx, const void *in, size_t len) { ctx->count = absorb(ctx->count, in, len); }
void SHA256_Final(uint8_t digest[32], SHA256_CTX *ctx) { emit(ctx->count, digest, 32); memset(ctx, 0, sizeof *ctx); }
#endif
#ifdef M_SHA512
void SHA512_Init(SHA512_CTX *ctx) { memset(ctx, 0, sizeof *ctx); ctx->count[0] = 0x53353132ULL; }
void SHA512_Update(SHA512_CTX *ctx, const void *in, size_t len) { ctx->count[0] = absorb(ctx->count[0], in, len); }
void SHA512_Final(unsigned char digest[64], SHA512_CTX *ctx) { emit(ctx->count[0], digest, 64); memset(ctx, 0, sizeof *ctx); }
#endif
#ifdef M_HMAC_SHA1
void hmac_sha1_process_data(const uint8_t *text, size_t text_len, const uint8_t *key, size_t key_len, void *resbuf)
{
  uint64_t a = absorb(0x484d4143ULL, key, key_len);
  a = absorb(a ^ 0x5c5c5c5cULL, text, text_len);
  emit(a, resbuf, 20);
}
#endif

#ifdef M_SHA1
/* ideal-hash model of SHA-1 for the HMAC query (C16): the accumulator lives in count[] */
void sha1_init_ctx(struct sha1_ctx *ctx) { memset(ctx, 0, sizeof *ctx); ctx->count[0] = 0x53484131u; }
void sha1_process_bytes(const void *buffer, struct sha1_ctx *ctx, size_t size)
{ uint64_t a = absorb(((uint64_t)ctx->count[1] << 32) | ctx->count[0], buffer, size); ctx->count[0] = (uint32_t)a; ctx->count[1] = (uint32_t)(a >> 32); }
void *sha1_finish_ctx(struct sha1_ctx *ctx, void *resbuf)
{ emit(((uint64_t)ctx->count[1] << 32) | ctx->count[0], resbuf, 20); memset(ctx, 0, sizeof *ctx); return resbuf; }
#endif

#ifdef M_SHA256_STATICS
/* ideal-hash model of alg-sha256.c's internal entry points (bodies removed from the
   real unit) for the HMAC-SHA256 query of C16 */
void SHA256_Init(SHA256_CTX *ctx) { memset(ctx, 0, sizeof *ctx); ctx->count = 0x53323536ULL; }
void __CPROVER_file_local_alg_sha256_c__SHA256_Update(SHA256_CTX *ctx, const void *in, size_t len, uint32_t *tmp32)
{ ctx->count = absorb(ctx->count, in, len); }
void __CPROVER_file_local_alg_sha256_c__SHA256_Final(uint8_t digest[32], SHA256_CTX *ctx, uint32_t *tmp32)
{ emit(ctx->count, digest, 32); }
#endif
