/* Havoc stubs for compression functions whose bodies were removed from the real
   unit (goto-instrument --remove-function-body on the exported static symbol).  */
#include <stdint.h>
#include "vf.h"
unsigned vf_transform_calls;
#ifdef T_SHA1
void __CPROVER_file_local_alg_sha1_c_sha1_do_transform(uint32_t state[5], const uint8_t buffer[64])
{
  __CPROVER_assert(__CPROVER_r_ok(buffer, 64), "C04: SHA-1 block readable");
  for (int i = 0; i < 5; i++) state[i] = nondet_u32();
  vf_transform_calls++;
}
#endif
