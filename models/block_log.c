/* Logging stubs for the compression functions (their bodies are removed from the
   real unit): each call records the 64-byte blocks it is given, in order, and
   replaces the chaining state by arbitrary values.  Used by the inductive
   Update/Final queries of C16.  */
#include <stdint.h>
#include <stddef.h>
#include "vf.h"
#define BLOG 4
unsigned char vf_blk[BLOG][64];
unsigned vf_blk_n;
static void logblk(const unsigned char *p)
{
  if (vf_blk_n < BLOG) for (int i = 0; i < 64; i++) vf_blk[vf_blk_n][i] = p[i];
  vf_blk_n++;
}
#if defined T_MD4 || defined T_MD5
#ifdef T_MD4
#include "alg-md4.h"
#define CTX MD4_CTX
#define BODY __CPROVER_file_local_alg_md4_c_body
#else
#include "alg-md5.h"
#define CTX MD5_CTX
#define BODY __CPROVER_file_local_alg_md5_c_body
#endif
const void *BODY(CTX *ctx, const void *data, unsigned long size)
{
  const unsigned char *p = data;
  __CPROVER_assert((size & 63) == 0 && size > 0, "C16: compression is applied to whole 64-byte blocks only");
  for (unsigned long k = 0; k < BLOG; k++)
    if (k * 64 < size) logblk(p + k * 64);
  __CPROVER_assert(size <= BLOG * 64, "C16: harness bound on blocks per call");
  ctx->a = nondet_u32(); ctx->b = nondet_u32(); ctx->c = nondet_u32(); ctx->d = nondet_u32();
  return p + size;
}
#endif

#ifdef T_SHA256
unsigned char vf_blk2[4][128];
uint32_t vf_state32[8];
void __CPROVER_file_local_alg_sha256_c_SHA256_Transform(uint32_t *state, const uint8_t *block, uint32_t *W, uint32_t *S)
{
  if (vf_blk_n < 4) for (int i = 0; i < 64; i++) vf_blk2[vf_blk_n][i] = block[i];
  vf_blk_n++;
  for (int i = 0; i < 8; i++) { state[i] = nondet_u32(); vf_state32[i] = state[i]; }
}
#endif
#ifdef T_SHA512
unsigned char vf_blk2[4][128];
uint64_t vf_state64[8];
void __CPROVER_file_local_alg_sha512_c_SHA512_Transform(uint64_t *state, const unsigned char *block)
{
  if (vf_blk_n < 4) for (int i = 0; i < 128; i++) vf_blk2[vf_blk_n][i] = block[i];
  vf_blk_n++;
  for (int i = 0; i < 8; i++) { state[i] = nondet_u64(); vf_state64[i] = state[i]; }
}
#endif

#ifdef T_SHA1L
uint32_t vf_state32[8];
void __CPROVER_file_local_alg_sha1_c_sha1_do_transform(uint32_t state[5], const uint8_t buffer[64])
{
  logblk(buffer);
  for (int i = 0; i < 5; i++) { state[i] = nondet_u32(); vf_state32[i] = state[i]; }
}
#endif
