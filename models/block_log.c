/* Logging stubs for the compression functions (their bodies are removed from the
   real unit): each call records the 64-byte blocks it is given, in order, and
   replaces the chaining state by arbitrary values.  Used by the inductive
   Update/Final queries of C16.  */
#include <stdint.h>
#include <stddef.h>
#include "vf.h"
#define BLOG 4
unsigned char vf_blk[BLOG][64];
unsigned vf_blk_n;
static void logblk(const unsigned char *p)
{
  if (vf_blk_n < BLOG) for (int i = 0; i < 64; i++) vf_blk[vf_blk_n][i] = p[i];
  vf_blk_n++;
}
#if defined T_MD4 || defined T_MD5
#ifdef T_MD4
#include "alg-md4.h"
#define CTX MD4_CTX
#define BODY __CPROVER_file_local_alg_md4_c_body
#else
#include "alg-md5.h"
#define CTX MD5_CTX
#define BODY __CPROVER_file_local_alg_md5_c_body
#endif
const void *BODY(CTX *ctx, const void *data, unsigned long size)
{
  const unsigned char *p = data;
  __CPROVER_assert((size & 63) == 0 && size > 0, "C16: compression is applied to whole 64-byte blocks only");
  for (unsigned long k = 0; k < BLOG; k++)
    if (k * 64 < size) logblk(p + k * 64);
  __CPROVER_assert(size <= BLOG * 64, "C16: harness bound on blocks per call");
  ctx->a = nondet_u32(); ctx->b = nondet_u32(); ctx->c = nondet_u32(); ctx->d = nondet_u32();
  return p + size;
}
#endif
