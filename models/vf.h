/* Shared declarations for harnesses and models.  */
#ifndef VF_H
#define VF_H 1
#include <stddef.h>
#include <stdint.h>

unsigned char nondet_uchar(void);
char nondet_char(void);
unsigned nondet_unsigned(void);
int nondet_int(void);
unsigned long nondet_ulong(void);
size_t nondet_size_t(void);
_Bool nondet_bool(void);
uint32_t nondet_u32(void);
uint64_t nondet_u64(void);

/* Reachability witness: must come back FAILED, else the harness is vacuous.  */
#define VF_WITNESS(tag) __CPROVER_assert(0, "WITNESS " tag)
#define VF_ASSERT(c, msg) __CPROVER_assert((c), msg)

extern const void *vf_wipe_ptr[];
extern size_t vf_wipe_len[];
extern unsigned vf_wipe_n;
extern unsigned long vf_last_strtoul;
#endif
