#ifndef REF_DES_H
#define REF_DES_H 1
#include <stdint.h>
uint32_t ref_des_f(uint32_t r, uint64_t k48, uint32_t saltbits);
uint64_t ref_des_rounds(uint64_t block, const uint64_t k48[16], uint32_t saltbits, int nrounds, int decrypt);
void ref_des_keysched(uint64_t key, uint64_t k48[16]);
uint64_t ref_des(uint64_t block, uint64_t key, int decrypt);
#endif
