/* Fault-injecting stubs of the yescrypt region/KDF layer for C15: every
   allocation-like call may fail (any subset: the solver explores all fault
   schedules), a ledger records the local region.  */
#include "crypt-port.h"
#include <errno.h>
#include "alg-yescrypt.h"
#include "vf.h"
int vf_local_live;            /* 1 while a local region is initialised and not yet freed */
unsigned vf_init_calls, vf_free_calls, vf_kdf_calls;
_Bool vf_init_failed, vf_free_failed, vf_r_failed;
int yescrypt_init_local(yescrypt_local_t *local)
{
  vf_init_calls++;
  local->base = local->aligned = 0; local->base_size = local->aligned_size = 0;
  if (nondet_bool()) { vf_init_failed = 1; errno = ENOMEM; return -1; }
  vf_local_live++;
  return 0;
}
int yescrypt_free_local(yescrypt_local_t *local)
{
  vf_free_calls++;
  __CPROVER_assert(vf_local_live == 1, "C15: free_local is called on a region that init_local initialised, once");
  vf_local_live--;
  if (nondet_bool()) { vf_free_failed = 1; errno = EINVAL; return -1; }   /* munmap failure */
  return 0;
}
uint8_t *yescrypt_r(const yescrypt_shared_t *shared, yescrypt_local_t *local, const uint8_t *passwd, size_t passwdlen,
                    const uint8_t *setting, const yescrypt_binary_t *key, uint8_t *buf, size_t buflen)
{
  vf_kdf_calls++;
  __CPROVER_assert(vf_local_live == 1, "C15: yescrypt_r runs with an initialised local region");
  __CPROVER_assert(__CPROVER_w_ok(buf, buflen), "C04: yescrypt_r output buffer writable for buflen");
  if (nondet_bool()) { vf_r_failed = 1; errno = ENOMEM; return 0; }       /* mmap failure inside the KDF, or bad setting */
  /* "$y$j9T$" + 4 salt chars + "$" + 43 hash chars */
  static const char pre[] = "$y$j9T$abcd$";
  for (size_t i = 0; i < sizeof pre - 1; i++) buf[i] = (uint8_t)pre[i];
  for (size_t i = 0; i < 43; i++) { unsigned char v = nondet_uchar(); buf[sizeof pre - 1 + i] = (uint8_t)("./0123456789ABCDEFGHIJKLMNOPQRSTUVWXYZabcdefghijklmnopqrstuvwxyz"[v & 63]); }
  buf[sizeof pre - 1 + 43] = 0;
  return buf;
}
