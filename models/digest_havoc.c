/* HAVOC models of the digest / cipher / KDF kernels.

   Each model checks the memory contract of the call (input readable for its
   whole length, context and output writable) and then produces *arbitrary*
   digest bytes, so the formatting code that follows is explored for every
   digest value.  The context is zeroed on Final (that the real Final does so
   is proved on the real code in C09).  */
#include "crypt-port.h"
#include "alg-md4.h"
#include "alg-md5.h"
#include "alg-sha1.h"
#include "alg-hmac-sha1.h"
#include "alg-sha256.h"
#include "alg-sha512.h"
#include "alg-des.h"
#include "alg-yescrypt.h"
#include "alg-gost3411-2012-hmac.h"
#include <errno.h>
#include "vf.h"

#define RD(p, n) __CPROVER_assert((n) == 0 || __CPROVER_r_ok((p), (n)), "C04: kernel input readable for its whole length")
#define WR(p, n) __CPROVER_assert(__CPROVER_w_ok((p), (n)), "C04: kernel output/context writable")

unsigned vf_kernel_calls;

static void havoc_bytes(uint8_t *p, size_t n)
{
  for (size_t i = 0; i < n; i++) p[i] = nondet_uchar();
}

#ifdef M_MD5
void MD5_Init(MD5_CTX *ctx) { WR(ctx, sizeof *ctx); memset(ctx, 0, sizeof *ctx); ctx->a = 1; }
void MD5_Update(MD5_CTX *ctx, const void *data, size_t size) { WR(ctx, sizeof *ctx); RD(data, size); ctx->lo += (MD5_u32plus)size; vf_kernel_calls++; }
void MD5_Final(uint8_t result[16], MD5_CTX *ctx) { WR(ctx, sizeof *ctx); WR(result, 16); havoc_bytes(result, 16); memset(ctx, 0, sizeof *ctx); }
#endif

#ifdef M_MD4
void MD4_Init(MD4_CTX *ctx) { WR(ctx, sizeof *ctx); memset(ctx, 0, sizeof *ctx); ctx->a = 1; }
void MD4_Update(MD4_CTX *ctx, const void *data, size_t size) { WR(ctx, sizeof *ctx); RD(data, size); ctx->lo += (MD4_u32plus)size; vf_kernel_calls++; }
void MD4_Final(uint8_t result[16], MD4_CTX *ctx) { WR(ctx, sizeof *ctx); WR(result, 16); havoc_bytes(result, 16); memset(ctx, 0, sizeof *ctx); }
#endif

#ifdef M_SHA256
void SHA256_Init(SHA256_CTX *ctx) { WR(ctx, sizeof *ctx); memset(ctx, 0, sizeof *ctx); }
void SHA256_Update(SHA256_CTX *ctx, const void *in, size_t len) { WR(ctx, sizeof *ctx); RD(in, len); ctx->count += len; vf_kernel_calls++; }
void SHA256_Final(uint8_t digest[32], SHA256_CTX *ctx) { WR(ctx, sizeof *ctx); WR(digest, 32); havoc_bytes(digest, 32); memset(ctx, 0, sizeof *ctx); }
void SHA256_Buf(const void *in, size_t len, uint8_t digest[32]) { RD(in, len); WR(digest, 32); havoc_bytes(digest, 32); }
#endif

#ifdef M_SHA512
void SHA512_Init(SHA512_CTX *ctx) { WR(ctx, sizeof *ctx); memset(ctx, 0, sizeof *ctx); }
void SHA512_Update(SHA512_CTX *ctx, const void *in, size_t len) { WR(ctx, sizeof *ctx); RD(in, len); ctx->count[1] += len; vf_kernel_calls++; }
void SHA512_Final(unsigned char digest[64], SHA512_CTX *ctx) { WR(ctx, sizeof *ctx); WR(digest, 64); havoc_bytes(digest, 64); memset(ctx, 0, sizeof *ctx); }
#endif

#ifdef M_HMAC_SHA1
void hmac_sha1_process_data(const uint8_t *text, size_t text_len, const uint8_t *key, size_t key_len, void *resbuf)
{ RD(text, text_len); RD(key, key_len); WR(resbuf, 20); havoc_bytes(resbuf, 20); vf_kernel_calls++; }
#endif

#ifdef M_DES
void des_set_key(struct des_ctx *restrict ctx, const unsigned char key[8])
{ WR(ctx, sizeof *ctx); RD(key, 8); for (int i = 0; i < 16; i++) { ctx->keysl[i] = nondet_u32(); ctx->keysr[i] = nondet_u32(); } }
void des_set_salt(struct des_ctx *restrict ctx, uint32_t salt)
{ WR(ctx, sizeof *ctx); ctx->saltbits = nondet_u32(); }
void des_crypt_block(struct des_ctx *restrict ctx, unsigned char *out, const unsigned char *in, unsigned int count, bool decrypt)
{ WR(ctx, sizeof *ctx); RD(in, 8); WR(out, 8); havoc_bytes(out, 8); vf_kernel_calls++; }
#endif

#ifdef M_YESCRYPT_KDF
/* yescrypt_kdf: arbitrary derived key, may fail (-1).  The local region
   protocol (init_local/free_local) is real code elsewhere (C15); here the
   region object is simply zeroed.  */
int vf_kdf_calls;
int yescrypt_kdf(const yescrypt_shared_t *shared, yescrypt_local_t *local,
                 const uint8_t *passwd, size_t passwdlen, const uint8_t *salt, size_t saltlen,
                 const yescrypt_params_t *params, uint8_t *buf, size_t buflen)
{
  WR(local, sizeof *local); RD(passwd, passwdlen); RD(salt, saltlen); RD(params, sizeof *params);
  WR(buf, buflen);
  vf_kdf_calls++;
#ifndef KDF_NO_FAIL
  /* resource failure inside the KDF (its mappings); not in the C10 composition, whose subject is the setting */
  if (nondet_bool()) { errno = nondet_bool() ? ENOMEM : EINVAL; return -1; }
#endif
  havoc_bytes(buf, buflen);
  return 0;
}
int yescrypt_init_local(yescrypt_local_t *local)
{ WR(local, sizeof *local); local->base = local->aligned = 0; local->base_size = local->aligned_size = 0; return 0; /* the real one only zeroes the region */ }
int yescrypt_free_local(yescrypt_local_t *local)
{ WR(local, sizeof *local); local->base = local->aligned = 0; local->base_size = local->aligned_size = 0; return 0; }
#endif

#ifdef M_HMAC_SHA256
void HMAC_SHA256_Buf(const void *K, size_t Klen, const void *in, size_t len, uint8_t digest[32])
{ RD(K, Klen); RD(in, len); WR(digest, 32); havoc_bytes(digest, 32); }
#endif

#ifdef M_GOST
void gost_hash256(const uint8_t *t, size_t n, uint8_t *out32, GOST34112012Context *ctx)
{ RD(t, n); WR(out32, 32); WR(ctx, sizeof *ctx); havoc_bytes(out32, 32); }
void gost_hmac256(const uint8_t *k, size_t n, const uint8_t *t, size_t len, uint8_t *out32, gost_hmac_256_t *gostbuf)
{ RD(k, n); RD(t, len); WR(out32, 32); WR(gostbuf, sizeof *gostbuf); havoc_bytes(out32, 32); }
#endif
