/* Contract stubs for the 16 hashing methods, used by the API-level harnesses.

   Contract of a real method (proved of each real crypt_<m>_rn by the method
   harnesses, harness/crypt_method.c): it either leaves `output` untouched and
   sets errno to EINVAL/ERANGE/ENOMEM, or writes a NUL-terminated
   passwd(5)-safe string of fewer than 384 bytes that does not begin with '*';
   it may write anything into scratch; it writes nowhere else.

   The stub's behaviour for the single (phrase, setting) pair of a harness run
   is fixed by an oracle chosen nondeterministically once (vf_oracle_*), i.e.
   the stub is a pure function of its inputs, which is what the method-level
   purity queries establish.  The stub also records how it was called so the
   harness can check what do_crypt passes (C04/C07/C09).  */
#include "crypt-port.h"
#include <errno.h>
#include "vf.h"

#ifndef STUB_MAXLEN
#define STUB_MAXLEN 8
#endif

_Bool vf_oracle_fail;
int vf_oracle_errno;
unsigned vf_oracle_len;
char vf_oracle_out[STUB_MAXLEN + 1];

unsigned vf_stub_calls;
int vf_stub_id;
const char *vf_stub_phrase, *vf_stub_setting;
size_t vf_stub_phr_size, vf_stub_set_size, vf_stub_out_size, vf_stub_scr_size;
uint8_t *vf_stub_output;
void *vf_stub_scratch;

void vf_oracle_init(void)
{
  vf_oracle_fail = nondet_bool();
  vf_oracle_errno = nondet_int();
  __CPROVER_assume(vf_oracle_errno == EINVAL || vf_oracle_errno == ERANGE || vf_oracle_errno == ENOMEM);
  vf_oracle_len = nondet_unsigned();
  __CPROVER_assume(vf_oracle_len >= 1 && vf_oracle_len <= STUB_MAXLEN);
  for (unsigned i = 0; i < STUB_MAXLEN; i++) {
    char c = nondet_char();
    __CPROVER_assume((unsigned char)c > 0x20 && (unsigned char)c < 0x7f && c != ':' && c != ';' && c != '*' && c != '!' && c != '\\');
    vf_oracle_out[i] = c;
  }
  vf_oracle_out[STUB_MAXLEN] = 0;
}

static void stub(int id, const char *phrase, size_t phr_size, const char *setting, size_t set_size,
                 uint8_t *output, size_t out_size, void *scratch, size_t scr_size)
{
  vf_stub_calls++;
  vf_stub_id = id;
  vf_stub_phrase = phrase; vf_stub_setting = setting;
  vf_stub_phr_size = phr_size; vf_stub_set_size = set_size;
  vf_stub_output = output; vf_stub_out_size = out_size;
  vf_stub_scratch = scratch; vf_stub_scr_size = scr_size;
  /* the scratch area is not written here: the harness starts from a data object
     whose internal array already holds arbitrary bytes, which is the same thing */
  if (vf_oracle_fail) { errno = vf_oracle_errno; return; }
  for (unsigned i = 0; i < STUB_MAXLEN; i++)
    if (i < vf_oracle_len) output[i] = (uint8_t)vf_oracle_out[i];
  output[vf_oracle_len] = 0;
}

#define STUB(id, name) \
  void name(const char *p, size_t ps, const char *s, size_t ss, uint8_t *o, size_t os, void *sc, size_t scs) \
  { stub(id, p, ps, s, ss, o, os, sc, scs); }

#if INCLUDE_sha1crypt
STUB(1, crypt_sha1crypt_rn)
#endif
#if INCLUDE_bcrypt_a
STUB(2, crypt_bcrypt_a_rn)
#endif
#if INCLUDE_bcrypt
STUB(3, crypt_bcrypt_rn)
#endif
#if INCLUDE_bcrypt_x
STUB(4, crypt_bcrypt_x_rn)
#endif
#if INCLUDE_bcrypt_y
STUB(5, crypt_bcrypt_y_rn)
#endif
#if INCLUDE_gost_yescrypt
STUB(6, crypt_gost_yescrypt_rn)
#endif
#if INCLUDE_sunmd5
STUB(7, crypt_sunmd5_rn)
#endif
#if INCLUDE_md5crypt
STUB(8, crypt_md5crypt_rn)
#endif
#if INCLUDE_nt
STUB(9, crypt_nt_rn)
#endif
#if INCLUDE_sha256crypt
STUB(10, crypt_sha256crypt_rn)
#endif
#if INCLUDE_sha512crypt
STUB(11, crypt_sha512crypt_rn)
#endif
#if INCLUDE_scrypt
STUB(12, crypt_scrypt_rn)
#endif
#if INCLUDE_yescrypt
STUB(13, crypt_yescrypt_rn)
#endif
#if INCLUDE_bsdicrypt
STUB(14, crypt_bsdicrypt_rn)
#endif
#if INCLUDE_bigcrypt
STUB(15, crypt_bigcrypt_rn)
#endif
#if INCLUDE_descrypt
STUB(16, crypt_descrypt_rn)
#endif
