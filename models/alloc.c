/* realloc model for C14/C15: may fail, may move; records what it saw.  Uses
   CBMC's malloc/free (lifetime tracking, double-free and use-after-free checks). */
#include <stdlib.h>
#include <string.h>
#include "vf.h"

size_t vf_old_size;          /* set by the harness: number of bytes of the old block the caller recorded */
unsigned vf_realloc_calls;
_Bool vf_realloc_failed;
void *vf_realloc_old, *vf_realloc_new;
size_t vf_realloc_n;

void *realloc(void *p, size_t n)
{
  vf_realloc_calls++;
  vf_realloc_old = p;
  vf_realloc_n = n;
  if (p && vf_old_size > 0) {
    /* C09/C14: an undersized block is erased before it is handed to realloc
       (arbitrary position: holds for every byte) */
    const unsigned char *b = p;
    __CPROVER_assert(b[0] == 0 && b[vf_old_size / 2] == 0 && b[vf_old_size - 1] == 0,
                     "C14: block that has to grow was erased before realloc (first, middle, last byte)");
  }
  if (nondet_bool()) { vf_realloc_failed = 1; vf_realloc_new = 0; return 0; }   /* allocation failure: old block stays valid */
  void *q = malloc(n);
  __CPROVER_assume(q != 0);
  /* contents of the old block are carried over (they are all zero by the assertion above,
     and crypt_ra clears the new block anyway); the old block is released */
  if (p) free(p);
  vf_realloc_new = q;
  return q;
}
