/* Bit-level reference DES written from FIPS 46-3 (tables typed from the standard,
   not taken from lib/gen-des-tables.c; validated natively against the FIPS KAT by
   tools/validate_models.sh).  Bits are numbered 1..64 from the most significant bit
   as in the standard.  Used by harness/des_*.c (C17).  */
#include <stdint.h>
#include "ref_des.h"

static const uint8_t IP[64] = {
  58,50,42,34,26,18,10,2, 60,52,44,36,28,20,12,4, 62,54,46,38,30,22,14,6, 64,56,48,40,32,24,16,8,
  57,49,41,33,25,17,9,1,  59,51,43,35,27,19,11,3, 61,53,45,37,29,21,13,5, 63,55,47,39,31,23,15,7 };
static const uint8_t FP[64] = {
  40,8,48,16,56,24,64,32, 39,7,47,15,55,23,63,31, 38,6,46,14,54,22,62,30, 37,5,45,13,53,21,61,29,
  36,4,44,12,52,20,60,28, 35,3,43,11,51,19,59,27, 34,2,42,10,50,18,58,26, 33,1,41,9,49,17,57,25 };
static const uint8_t E[48] = {
  32,1,2,3,4,5, 4,5,6,7,8,9, 8,9,10,11,12,13, 12,13,14,15,16,17,
  16,17,18,19,20,21, 20,21,22,23,24,25, 24,25,26,27,28,29, 28,29,30,31,32,1 };
static const uint8_t P[32] = {
  16,7,20,21, 29,12,28,17, 1,15,23,26, 5,18,31,10, 2,8,24,14, 32,27,3,9, 19,13,30,6, 22,11,4,25 };
static const uint8_t PC1[56] = {
  57,49,41,33,25,17,9, 1,58,50,42,34,26,18, 10,2,59,51,43,35,27, 19,11,3,60,52,44,36,
  63,55,47,39,31,23,15, 7,62,54,46,38,30,22, 14,6,61,53,45,37,29, 21,13,5,28,20,12,4 };
static const uint8_t PC2[48] = {
  14,17,11,24,1,5, 3,28,15,6,21,10, 23,19,12,4,26,8, 16,7,27,20,13,2,
  41,52,31,37,47,55, 30,40,51,45,33,48, 44,49,39,56,34,53, 46,42,50,36,29,32 };
static const uint8_t SHIFTS[16] = { 1,1,2,2,2,2,2,2,1,2,2,2,2,2,2,1 };
static const uint8_t S[8][64] = {
 { 14,4,13,1,2,15,11,8,3,10,6,12,5,9,0,7, 0,15,7,4,14,2,13,1,10,6,12,11,9,5,3,8,
   4,1,14,8,13,6,2,11,15,12,9,7,3,10,5,0, 15,12,8,2,4,9,1,7,5,11,3,14,10,0,6,13 },
 { 15,1,8,14,6,11,3,4,9,7,2,13,12,0,5,10, 3,13,4,7,15,2,8,14,12,0,1,10,6,9,11,5,
   0,14,7,11,10,4,13,1,5,8,12,6,9,3,2,15, 13,8,10,1,3,15,4,2,11,6,7,12,0,5,14,9 },
 { 10,0,9,14,6,3,15,5,1,13,12,7,11,4,2,8, 13,7,0,9,3,4,6,10,2,8,5,14,12,11,15,1,
   13,6,4,9,8,15,3,0,11,1,2,12,5,10,14,7, 1,10,13,0,6,9,8,7,4,15,14,3,11,5,2,12 },
 { 7,13,14,3,0,6,9,10,1,2,8,5,11,12,4,15, 13,8,11,5,6,15,0,3,4,7,2,12,1,10,14,9,
   10,6,9,0,12,11,7,13,15,1,3,14,5,2,8,4, 3,15,0,6,10,1,13,8,9,4,5,11,12,7,2,14 },
 { 2,12,4,1,7,10,11,6,8,5,3,15,13,0,14,9, 14,11,2,12,4,7,13,1,5,0,15,10,3,9,8,6,
   4,2,1,11,10,13,7,8,15,9,12,5,6,3,0,14, 11,8,12,7,1,14,2,13,6,15,0,9,10,4,5,3 },
 { 12,1,10,15,9,2,6,8,0,13,3,4,14,7,5,11, 10,15,4,2,7,12,9,5,6,1,13,14,0,11,3,8,
   9,14,15,5,2,8,12,3,7,0,4,10,1,13,11,6, 4,3,2,12,9,5,15,10,11,14,1,7,6,0,8,13 },
 { 4,11,2,14,15,0,8,13,3,12,9,7,5,10,6,1, 13,0,11,7,4,9,1,10,14,3,5,12,2,15,8,6,
   1,4,11,13,12,3,7,14,10,15,6,8,0,5,9,2, 6,11,13,8,1,4,10,7,9,5,0,15,14,2,3,12 },
 { 13,2,8,4,6,15,11,1,10,9,3,14,5,0,12,7, 1,15,13,8,10,3,7,4,12,5,6,11,0,14,9,2,
   7,11,4,1,9,12,14,2,0,6,10,13,15,3,5,8, 2,1,14,7,4,10,8,13,15,12,9,0,3,5,6,11 } };

/* bit b (1 = MSB) of a w-bit value */
#define BIT(v, b, w) (((v) >> ((w) - (b))) & 1u)

static uint64_t permute(uint64_t in, const uint8_t *tab, int n, int inw)
{
  uint64_t out = 0;
  for (int i = 0; i < n; i++)
    out = (out << 1) | BIT(in, tab[i], inw);
  return out;
}

/* the round function with the crypt(3) salt: E, swap salted bit pairs between the
   two 24-bit halves, xor subkey, S-boxes, P */
uint32_t ref_des_f(uint32_t r, uint64_t k48, uint32_t saltbits)
{
  uint64_t e = permute(r, E, 48, 32);
  uint32_t hi = (uint32_t)(e >> 24) & 0xffffff, lo = (uint32_t)e & 0xffffff;
  uint32_t sw = (hi ^ lo) & saltbits;
  hi ^= sw; lo ^= sw;
  uint64_t x = (((uint64_t)hi << 24) | lo) ^ k48;
  uint32_t s = 0;
  for (int i = 0; i < 8; i++) {
    unsigned six = (unsigned)(x >> (42 - 6 * i)) & 0x3f;
    unsigned row = ((six >> 4) & 2) | (six & 1), col = (six >> 1) & 0xf;
    s = (s << 4) | S[i][row * 16 + col];
  }
  return (uint32_t)permute(s, P, 32, 32);
}

/* nrounds Feistel rounds between IP and (swap, FP); keys used in order k[0..] for
   encryption and k[15], k[14].. for decryption */
uint64_t ref_des_rounds(uint64_t block, const uint64_t k48[16], uint32_t saltbits, int nrounds, int decrypt)
{
  uint64_t x = permute(block, IP, 64, 64);
  uint32_t l = (uint32_t)(x >> 32), r = (uint32_t)x;
  for (int i = 0; i < nrounds; i++) {
    uint32_t t = l ^ ref_des_f(r, k48[decrypt ? 15 - i : i], saltbits);
    l = r; r = t;
  }
  return permute(((uint64_t)r << 32) | l, FP, 64, 64);
}

void ref_des_keysched(uint64_t key, uint64_t k48[16])
{
  uint64_t cd = permute(key, PC1, 56, 64);
  uint32_t c = (uint32_t)(cd >> 28) & 0xfffffff, d = (uint32_t)cd & 0xfffffff;
  for (int i = 0; i < 16; i++) {
    for (int s = 0; s < SHIFTS[i]; s++) {
      c = ((c << 1) | (c >> 27)) & 0xfffffff;
      d = ((d << 1) | (d >> 27)) & 0xfffffff;
    }
    k48[i] = permute(((uint64_t)c << 28) | d, PC2, 48, 56);
  }
}

uint64_t ref_des(uint64_t block, uint64_t key, int decrypt)
{
  uint64_t k[16];
  ref_des_keysched(key, k);
  return ref_des_rounds(block, k, 0, 16, decrypt);
}
