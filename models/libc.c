/* libc models for the functions CBMC 6.11 has no (usable) body for.
   Trusted base: written from the C11 / glibc documentation of each function and reviewed by hand (they use CBMC intrinsics, so they are not executed natively).

   Decimal printing uses an *inverse* model: the digits are chosen
   nondeterministically and constrained by Horner evaluation to denote the
   value.  A decimal representation without leading zero is unique, so the
   constraint is functional (neither over- nor under-approximates) and avoids
   the div-by-10 chains that stall bit-blasting.  */
#include <stddef.h>
#include <stdint.h>
#include <stdarg.h>
#include <limits.h>
#include <errno.h>
#include <string.h>
#include "vf.h"

unsigned char nondet_uchar(void);
unsigned nondet_unsigned(void);
int nondet_int(void);

/* ---- ghost log of wipes (C09) ---- */
#ifndef VF_WIPE_LOG
#define VF_WIPE_LOG 48
#endif
const void *vf_wipe_ptr[VF_WIPE_LOG];
size_t vf_wipe_len[VF_WIPE_LOG];
unsigned vf_wipe_n;

_Bool vf_wipe_partial;
void explicit_bzero(void *s, size_t n)
{
  /* does the wipe stop short of the end of the object it starts in?  (only
     meaningful, and only asserted, in harnesses whose wipes are all whole-object) */
  if (n != __CPROVER_OBJECT_SIZE(s) - __CPROVER_POINTER_OFFSET(s)) vf_wipe_partial = 1;
  if (vf_wipe_n < VF_WIPE_LOG) {
    vf_wipe_ptr[vf_wipe_n] = s;
    vf_wipe_len[vf_wipe_n] = n;
  }
  vf_wipe_n++;
  memset(s, 0, n);
}

/* A precise variant used where partial wipes matter.  */
void vf_bzero_exact(void *s, size_t n)
{
  unsigned char *p = s;
  for (size_t i = 0; i < n; i++) p[i] = 0;
}

size_t strcspn(const char *s, const char *reject)
{
  size_t i = 0;
  for (;; i++) {
    char c = s[i];
    if (c == 0) return i;
    for (size_t j = 0; reject[j] != 0; j++)
      if (reject[j] == c) return i;
  }
}

size_t strspn(const char *s, const char *accept)
{
  size_t i = 0;
  for (;; i++) {
    char c = s[i];
    if (c == 0) return i;
    _Bool found = 0;
    for (size_t j = 0; accept[j] != 0; j++)
      if (accept[j] == c) { found = 1; break; }
    if (!found) return i;
  }
}

/* strtoul, base 10 only (the library never passes another base).
   glibc semantics: skip isspace, optional sign, digits; no digits => 0 and
   *endp = nptr; overflow => ULONG_MAX + ERANGE; '-' negates (unsigned).  */
unsigned long vf_last_strtoul;
unsigned long strtoul(const char *nptr, char **endp, int base)
{
  __CPROVER_assert(base == 10, "libc model: strtoul base 10 only");
  const char *p = nptr;
  while (*p == ' ' || (*p >= '\t' && *p <= '\r')) p++;
  _Bool neg = 0;
  if (*p == '-') { neg = 1; p++; }
  else if (*p == '+') p++;
  unsigned long acc = 0;
  _Bool any = 0, ovf = 0;
  while (*p >= '0' && *p <= '9') {
    unsigned d = (unsigned)(*p - '0');
    if (acc > ULONG_MAX / 10 || (acc == ULONG_MAX / 10 && d > ULONG_MAX % 10)) ovf = 1;
    acc = acc * 10 + d;
    any = 1;
    p++;
  }
  if (!any) { if (endp) *endp = (char *)nptr; vf_last_strtoul = 0; return 0; }
  if (endp) *endp = (char *)p;
  if (ovf) { errno = ERANGE; vf_last_strtoul = ULONG_MAX; return ULONG_MAX; }
  if (neg) acc = -acc;
  vf_last_strtoul = acc;
  return acc;
}

/* ---- decimal printing ----
   The digit string of v is given by two uninterpreted functions (digit count
   and i-th digit) constrained by Horner evaluation to denote v.  Because the
   decimal representation is unique the constraint is functional; using
   uninterpreted functions (rather than fresh nondeterministic digits) makes
   two prints of the same value syntactically equal for the solver, which the
   two-run (relational) queries need.  */
unsigned __CPROVER_uninterpreted_ndig(unsigned long v);
unsigned char __CPROVER_uninterpreted_dig(unsigned long v, unsigned i);

static unsigned vf_fmt_ulong(char *tmp, unsigned long v)
{
  unsigned n = __CPROVER_uninterpreted_ndig(v);
  __CPROVER_assume(n >= 1 && n <= 20);
  unsigned long acc = 0;
  for (unsigned i = 0; i < 20; i++) {
    if (i < n) {
      unsigned char d = __CPROVER_uninterpreted_dig(v, i);
      __CPROVER_assume(d <= 9);
      if (i == 0 && n > 1) __CPROVER_assume(d != 0);
      /* no overflow in the Horner step */
      __CPROVER_assume(acc < ULONG_MAX / 10 || (acc == ULONG_MAX / 10 && d <= ULONG_MAX % 10));
      acc = acc * 10 + d;
      tmp[i] = (char)('0' + d);
    }
  }
  __CPROVER_assume(acc == v);
  return n;
}

static unsigned vf_fmt_uint(char *tmp, unsigned v)
{
  unsigned n = vf_fmt_ulong(tmp, (unsigned long)v);
  return n;
}

#define PUT(ch) do { if (size > 0 && pos < size - 1) str[pos] = (ch); pos++; } while (0)

int vsnprintf(char *str, size_t size, const char *fmt, va_list ap)
{
  size_t pos = 0;
  for (size_t i = 0; fmt[i] != 0; i++) {
    char c = fmt[i];
    if (c != '%') { PUT(c); continue; }
    i++;
    c = fmt[i];
    int prec = -1;
    if (c == '.') {
      i++;
      __CPROVER_assert(fmt[i] == '*', "libc model: only %.*s precision supported");
      prec = va_arg(ap, int);
      i++;
      c = fmt[i];
    }
    if (c == 's') {
      const char *s = va_arg(ap, const char *);
      for (size_t k = 0; (prec < 0 || k < (size_t)prec) && s[k] != 0; k++)
        PUT(s[k]);
    } else if (c == 'c') {
      /* CBMC's va_list is an array of pointers to the actual arguments and it
         does not apply the default promotion to a char argument.  */
      int ch;
      if (__CPROVER_OBJECT_SIZE(*(void **)ap) == 1) ch = va_arg(ap, char);
      else ch = va_arg(ap, int);
      PUT((char)ch);
    } else if (c == 'u') {
      unsigned v = va_arg(ap, unsigned);
      char tmp[20];
      unsigned n = vf_fmt_uint(tmp, v);
      for (unsigned k = 0; k < n; k++) PUT(tmp[k]);
    } else if (c == 'l' || c == 'z') {
      i++;
      __CPROVER_assert(fmt[i] == 'u', "libc model: only %lu / %zu supported");
      unsigned long v = va_arg(ap, unsigned long);
      char tmp[20];
      unsigned n = vf_fmt_ulong(tmp, v);
      for (unsigned k = 0; k < n; k++) PUT(tmp[k]);
    } else if (c == '%') {
      PUT('%');
    } else {
      __CPROVER_assert(0, "libc model: unsupported conversion");
    }
  }
  if (size > 0) str[pos < size ? pos : size - 1] = 0;
  return (int)pos;
}

int snprintf(char *str, size_t size, const char *fmt, ...)
{
  va_list ap;
  va_start(ap, fmt);
  int r = vsnprintf(str, size, fmt, ap);
  va_end(ap);
  return r;
}

/* assert() failure: process-fatal => a violation wherever it is reachable.  */
void __assert_fail(const char *a, const char *f, unsigned l, const char *fn)
{
  __CPROVER_assert(0, "ABORT: libxcrypt assert() failed (process-fatal)");
  __CPROVER_assume(0);
}

void abort(void)
{
  __CPROVER_assert(0, "ABORT: abort() reached (process-fatal)");
  __CPROVER_assume(0);
}

/* arc4random_buf: fresh nondeterministic bytes; the request is logged (C09d, C12). */
void *vf_rand_ptr;
size_t vf_rand_len;
unsigned vf_rand_calls, vf_rand_at;
void arc4random_buf(void *buf, size_t n)
{
  vf_rand_at = vf_wipe_n;
  unsigned char *p = buf;
  vf_rand_ptr = buf;
  vf_rand_len = n;
  vf_rand_calls++;
  for (size_t i = 0; i < n; i++) p[i] = nondet_uchar();
}
