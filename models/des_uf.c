/* Functional (uninterpreted) model of the DES core for the obsolete-API harness:
   the key schedule is an uninterpreted function of the 8 key bytes, the block
   function of (key schedule id, salt, 8 input bytes, count, direction).  */
#include "crypt-port.h"
#include "alg-des.h"
#include "vf.h"
uint64_t __CPROVER_uninterpreted_des_keyid(uint64_t key);
uint64_t __CPROVER_uninterpreted_des_block(uint64_t keyid, uint32_t salt, uint64_t in, unsigned count, _Bool dec);
#ifdef UF_LOG
/* C03: every application is logged so the harness can instantiate the
   ideal-cipher (injectivity) axiom on the finitely many applications that occur */
#ifndef DLOG
#define DLOG 8
#endif
uint64_t vf_dk_key[DLOG], vf_dk_res[DLOG]; unsigned vf_dk_n;
uint64_t vf_db_id[DLOG], vf_db_in[DLOG], vf_db_res[DLOG]; uint32_t vf_db_salt[DLOG]; unsigned vf_db_count[DLOG]; _Bool vf_db_dec[DLOG]; unsigned vf_db_n;
#endif
static uint64_t ld(const unsigned char *p) { uint64_t v = 0; for (int i = 0; i < 8; i++) v = (v << 8) | p[i]; return v; }
void des_set_key(struct des_ctx *restrict ctx, const unsigned char key[8])
{
  uint64_t id = __CPROVER_uninterpreted_des_keyid(ld(key) & 0xfefefefefefefefeULL);
#ifdef UF_LOG
  if (vf_dk_n < DLOG) { vf_dk_key[vf_dk_n] = ld(key) & 0xfefefefefefefefeULL; vf_dk_res[vf_dk_n] = id; }
  vf_dk_n++;
#endif
  ctx->keysl[0] = (uint32_t)(id >> 32); ctx->keysr[0] = (uint32_t)id;
  for (int i = 1; i < 16; i++) { ctx->keysl[i] = 0; ctx->keysr[i] = 0; }
}
void des_set_salt(struct des_ctx *restrict ctx, uint32_t salt) { ctx->saltbits = salt; }
void des_crypt_block(struct des_ctx *restrict ctx, unsigned char *out, const unsigned char *in, unsigned int count, bool decrypt)
{
  uint64_t id = ((uint64_t)ctx->keysl[0] << 32) | ctx->keysr[0];
  if (count == 0) count = 1;      /* as the real function: zero encryptions make no sense */
  uint64_t o = __CPROVER_uninterpreted_des_block(id, ctx->saltbits, ld(in), count, decrypt);
#ifdef UF_LOG
  if (vf_db_n < DLOG) { vf_db_id[vf_db_n] = id; vf_db_salt[vf_db_n] = ctx->saltbits; vf_db_in[vf_db_n] = ld(in); vf_db_count[vf_db_n] = count; vf_db_dec[vf_db_n] = decrypt; vf_db_res[vf_db_n] = o; }
  vf_db_n++;
#endif
  for (int i = 0; i < 8; i++) out[i] = (unsigned char)(o >> (56 - 8 * i));
}
