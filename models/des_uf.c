/* Functional (uninterpreted) model of the DES core for the obsolete-API harness:
   the key schedule is an uninterpreted function of the 8 key bytes, the block
   function of (key schedule id, salt, 8 input bytes, count, direction).  */
#include "crypt-port.h"
#include "alg-des.h"
#include "vf.h"
uint64_t __CPROVER_uninterpreted_des_keyid(uint64_t key);
uint64_t __CPROVER_uninterpreted_des_block(uint64_t keyid, uint32_t salt, uint64_t in, unsigned count, _Bool dec);
static uint64_t ld(const unsigned char *p) { uint64_t v = 0; for (int i = 0; i < 8; i++) v = (v << 8) | p[i]; return v; }
void des_set_key(struct des_ctx *restrict ctx, const unsigned char key[8])
{
  uint64_t id = __CPROVER_uninterpreted_des_keyid(ld(key));
  ctx->keysl[0] = (uint32_t)(id >> 32); ctx->keysr[0] = (uint32_t)id;
  for (int i = 1; i < 16; i++) { ctx->keysl[i] = 0; ctx->keysr[i] = 0; }
}
void des_set_salt(struct des_ctx *restrict ctx, uint32_t salt) { ctx->saltbits = salt; }
void des_crypt_block(struct des_ctx *restrict ctx, unsigned char *out, const unsigned char *in, unsigned int count, bool decrypt)
{
  uint64_t id = ((uint64_t)ctx->keysl[0] << 32) | ctx->keysr[0];
  uint64_t o = __CPROVER_uninterpreted_des_block(id, ctx->saltbits, ld(in), count, decrypt);
  for (int i = 0; i < 8; i++) out[i] = (unsigned char)(o >> (56 - 8 * i));
}
