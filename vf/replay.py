"""Counterexample replay: the solver's assignment is written to a replay file and,
where the counterexample is expressible through the public API, re-executed
against a gcc -fsanitize=address,undefined build of /repo's working tree."""
import glob
import json
import os
import subprocess
import sys

from . import core
from .core import VERIF, VerifError, sh

_NATIVE = {}


def native_driver(build):
    """Build (once per Build) the ASan+UBSan driver from the current tree."""
    if build.dir in _NATIVE:
        return _NATIVE[build.dir]
    out = os.path.join(build.dir, "replay_driver")
    srcs = [p for p in sorted(glob.glob(os.path.join(core.LIB, "*.c")))
            if os.path.basename(p) not in ("gen-des-tables.c", "alg-yescrypt-platform.c")]
    cmd = ["gcc", "-O0", "-g", "-fsanitize=address,undefined", "-fno-sanitize-recover=undefined",
           "-DHAVE_CONFIG_H", "-DIN_LIBCRYPT", "-I" + build.gen, "-I" + core.LIB,
           "-Wno-deprecated-declarations", "-o", out,
           os.path.join(VERIF, "replay", "driver.c")] + srcs
    p = subprocess.run(cmd, stdout=subprocess.PIPE, stderr=subprocess.PIPE, text=True)
    if p.returncode != 0:
        _NATIVE[build.dir] = None
        sys.stderr.write("native replay driver did not build: %s\n" % p.stderr[-800:])
        return None
    _NATIVE[build.dir] = out
    return out


def hexs(vals):
    if vals is None:
        return "-"
    if isinstance(vals, str):
        return vals.encode("latin1").hex() or "00"
    return "".join("%02x" % (int(v) & 0xff) for v in vals) or "-"


def native_args(kind, inputs):
    """Map harness in_* variables to driver arguments."""
    if kind == "gensalt":
        pre = inputs.get("__prefix")
        rb_null = str(inputs.get("in_rb_null", "FALSE")).upper() in ("TRUE", "1")
        nrb = int(inputs.get("in_nrbytes", 0) or 0)
        rb = inputs.get("in_rbytes", []) or []
        cap = len(rb)
        rbv = rb[cap - nrb:] if nrb and cap >= nrb else rb[:nrb]
        return ["gensalt", "-" if pre is None else (pre.encode().hex() or "00"),
                str(int(inputs.get("in_count", 0) or 0)),
                "-" if rb_null else hexs(rbv) if nrb else "00", str(nrb),
                str(int(inputs.get("in_osize", 192) or 0))]
    if kind == "crypt":
        ph = inputs.get("in_phrase", [])
        st = inputs.get("in_setting", [])
        def cstr(a):
            out = []
            for v in a:
                if int(v) & 0xff == 0:
                    break
                out.append(int(v) & 0xff)
            return out
        pre = inputs.get("__prefix") or ""
        return ["crypt", hexs(cstr(ph)) if cstr(ph) else "00", (pre.encode().hex() + hexs(cstr(st)).replace("-", "")) or "00"]
    return None


def write_replay(pid, r, build):
    d = os.path.join(VERIF, "evidence", "replay")
    os.makedirs(d, exist_ok=True)
    path = os.path.join(d, "%s-%s.json" % (pid, r.name))
    fail = r.failures[0] if getattr(r, "failures", None) else {}
    inputs = dict(fail.get("inputs", {}))
    q = r.query
    kind = getattr(q, "replay_kind", None)
    if getattr(q, "replay_prefix", None) is not None or kind == "gensalt":
        inputs["__prefix"] = getattr(q, "replay_prefix", None)
    rec = {
        "property": pid, "query": r.name,
        "failed_assertions": [f["property"] + ": " + f["description"] for f in getattr(r, "failures", [])][:10],
        "location": fail.get("location", {}),
        "inputs": inputs,
        "cbmc_cmd": r.cmd,
        "harness": q.harness, "defs": q.defs,
        "replay_kind": kind,
        "how_to_replay": "cd /verif && ./check %s --replay %s" % (pid, path),
    }
    if getattr(r, "extra_detail", None):
        rec["detail"] = r.extra_detail
    if kind and build is not None:
        try:
            drv = native_driver(build)
            args = native_args(kind, inputs)
            if drv and args:
                p = subprocess.run([drv] + args, stdout=subprocess.PIPE, stderr=subprocess.PIPE,
                                   text=True, timeout=120,
                                   env=dict(os.environ, ASAN_OPTIONS="detect_leaks=0:abort_on_error=0"))
                rec["native_replay"] = {
                    "argv": args, "exit": p.returncode,
                    "reproduced": p.returncode != 0,
                    "stdout": p.stdout[-1500:], "stderr": p.stderr[-2500:],
                }
                sys.stderr.write("  native replay %s: %s\n" % (
                    " ".join(args), "REPRODUCED" if p.returncode != 0 else
                    "not reproduced through the public API (counterexample depends on modelled values)"))
        except Exception as e:  # replay is best effort; the solver verdict stands
            rec["native_replay"] = {"error": str(e)}
    with open(path, "w") as f:
        json.dump(rec, f, indent=1)
    return path


def replay_file(path):
    with open(path) as f:
        rec = json.load(f)
    print(json.dumps({k: rec[k] for k in ("property", "query", "failed_assertions", "inputs")}, indent=1))
    kind = rec.get("replay_kind")
    if not kind:
        print("no public-API replay for this query; re-run: " + rec.get("cbmc_cmd", ""))
        return 0
    build = core.Build("replay")
    try:
        drv = native_driver(build)
        args = native_args(kind, rec["inputs"])
        p = subprocess.run([drv] + args)
        print("native replay exit", p.returncode)
        return 1 if p.returncode else 0
    finally:
        build.cleanup()
