"""Core machinery: regenerate headers from /repo, compile lib units with goto-cc,
link harnesses with models, run CBMC, parse verdicts, write evidence.

Everything is rebuilt from /repo's *working tree* on every run; nothing is cached
across runs.  Build output lives under /verif/build/<tag>/ (never /tmp).
"""
import concurrent.futures as cf
import hashlib
import json
import os
import re
import resource
import shutil
import subprocess
import sys
import threading
import time

VERIF = os.path.dirname(os.path.dirname(os.path.abspath(__file__)))
REPO = os.environ.get("VERIF_REPO", "/repo")
LIB = os.path.join(REPO, "lib")
AUX = os.path.join(REPO, "build-aux", "scripts")
GUARD = "LIBXCRYPT_VERIF"

ALL_HASHES = ("bcrypt,bcrypt_a,bcrypt_x,bcrypt_y,bigcrypt,bsdicrypt,descrypt,"
              "gost_yescrypt,md5crypt,nt,scrypt,sha1crypt,sha256crypt,"
              "sha512crypt,sunmd5,yescrypt")

BASE_FLAGS = [
    "--unwinding-assertions", "--pointer-check", "--bounds-check",
    "--pointer-overflow-check", "--signed-overflow-check",
    "--undefined-shift-check", "--div-by-zero-check",
    "--drop-unused-functions", "--no-malloc-may-fail",
]


class VerifError(Exception):
    """Machinery error (exit 2): never reported as success or as violation."""


def sh(cmd, cwd=None, timeout=None, env=None, check=True, stdin=None):
    p = subprocess.run(cmd, cwd=cwd, timeout=timeout, env=env, input=stdin,
                       stdout=subprocess.PIPE, stderr=subprocess.PIPE, text=True)
    if check and p.returncode != 0:
        raise VerifError("command failed (%d): %s\n%s\n%s" % (
            p.returncode, " ".join(cmd), p.stdout[-3000:], p.stderr[-3000:]))
    return p


def file_sha(path):
    h = hashlib.sha256()
    with open(path, "rb") as f:
        h.update(f.read())
    return h.hexdigest()[:16]


def makefile_var(name, default=None):
    """Read a simple NAME = value from /repo/Makefile (configure output)."""
    try:
        with open(os.path.join(REPO, "Makefile")) as f:
            for line in f:
                m = re.match(r"^%s\s*=\s*(.*)$" % re.escape(name), line)
                if m:
                    return m.group(1).strip()
    except OSError:
        pass
    return default


class Build:
    """One build directory for one check run."""

    def __init__(self, tag, hashes=None, extra_defs=None, failure_tokens=None, scale=None):
        # scale=(ALG_SPECIFIC_SIZE, CRYPT_DATA_INTERNAL_SIZE): scaled-down data object for
        # the API-level harnesses (see DESIGN.md: CBMC cannot convert byte updates on the
        # 32 KB struct); the code is size-generic (sizeof), the scaled headers are
        # regenerated from /repo's on every run.
        self.scale = scale
        self.tag = tag
        self.dir = os.path.join(VERIF, "build", tag)
        shutil.rmtree(self.dir, ignore_errors=True)
        os.makedirs(self.dir)
        self.gen = os.path.join(self.dir, "gen")
        os.makedirs(self.gen)
        if hashes is None:
            hashes = makefile_var("hashes_enabled", "," + ALL_HASHES + ",").strip(",")
        self.hashes = hashes
        self.extra_defs = list(extra_defs or [])
        self.failure_tokens = failure_tokens
        self.objs = {}
        self.sources = {}
        self.lock = threading.RLock()
        self.gen_headers()

    # -- generated headers ---------------------------------------------------
    def gen_headers(self):
        env = dict(os.environ, LC_ALL="C")
        he = "," + self.hashes + "," if self.hashes else ","
        cfg = os.path.join(self.gen, "config.h")
        with open(os.path.join(REPO, "config.h")) as f:
            txt = f.read()
        if self.failure_tokens is not None:
            txt = re.sub(r"#define ENABLE_FAILURE_TOKENS \d",
                         "#define ENABLE_FAILURE_TOKENS %d" % self.failure_tokens, txt)
        with open(cfg, "w") as f:
            f.write(txt)

        def gen(script, args, out):
            p = sh(["perl", os.path.join(AUX, script)] + args, env=env, cwd=REPO)
            with open(os.path.join(self.gen, out), "w") as f:
                f.write(p.stdout)
        gen("gen-crypt-hashes-h", [os.path.join(LIB, "hashes.conf"), he], "crypt-hashes.h")
        gen("gen-crypt-symbol-vers-h",
            [makefile_var("APPLY_SYMVERS", "yes"), "SYMVER_MIN=" + makefile_var("SYMVER_MIN", "GLIBC_2.0"),
             "SYMVER_FLOOR=" + makefile_var("SYMVER_FLOOR", "GLIBC_2.2.5"),
             "COMPAT_ABI=" + makefile_var("COMPAT_ABI", "yes"),
             os.path.join(LIB, "libcrypt.map.in")], "crypt-symbol-vers.h")
        gen("gen-crypt-h", [os.path.join(LIB, "crypt.h.in"), cfg,
                            os.path.join(LIB, "hashes.conf"), he], "crypt.h")
        gen("gen-crypt-h", [os.path.join(LIB, "xcrypt.h.in"), cfg], "xcrypt.h")
        if self.scale:
            alg, internal = self.scale
            with open(os.path.join(self.gen, "crypt.h")) as f:
                t = f.read()
            t2 = re.sub(r"(#define CRYPT_DATA_INTERNAL_SIZE) \d+", r"\1 %d" % internal, t)
            if t2 == t:
                raise VerifError("scale: CRYPT_DATA_INTERNAL_SIZE not found in crypt.h")
            with open(os.path.join(self.gen, "crypt.h"), "w") as f:
                f.write(t2)
            with open(os.path.join(LIB, "crypt-port.h")) as f:
                t = f.read()
            t2 = re.sub(r"(#define ALG_SPECIFIC_SIZE) \d+", r"\1 %d" % alg, t)
            if t2 == t:
                raise VerifError("scale: ALG_SPECIFIC_SIZE not found in crypt-port.h")
            with open(os.path.join(self.gen, "crypt-port.h"), "w") as f:
                f.write('#line 1 "%s"\n' % os.path.join(LIB, "crypt-port.h"))
                f.write(t2)

    def cflags(self, defs=()):
        return (["-DHAVE_CONFIG_H", "-DIN_LIBCRYPT", "-D" + GUARD,
                 "-I" + self.gen, "-I" + LIB, "-I" + os.path.join(VERIF, "models")]
                + ["-D" + d for d in self.extra_defs] + ["-D" + d for d in defs])

    # -- compile ---------------------------------------------------------------
    def cc(self, src, out=None, defs=(), export_static=False):
        """goto-cc one C file (absolute, or relative to /repo/lib or /verif)."""
        with self.lock:
            return self._cc(src, out, defs, export_static)

    def _cc(self, src, out, defs, export_static):
        path = self.resolve(src)
        key = (path, tuple(defs), export_static)
        if key in self.objs:
            return self.objs[key]
        if out is None:
            out = "%s-%s.gb" % (os.path.basename(path).replace(".c", ""),
                                hashlib.md5(repr(key).encode()).hexdigest()[:8])
        outp = os.path.join(self.dir, out)
        cmd = ["goto-cc", "-c", "-o", outp] + self.cflags(defs)
        if export_static:
            cmd.append("--export-file-local-symbols")
        self.sources[path] = file_sha(path)
        cmd.append(self.frontend_fixup(path))
        sh(cmd)
        self.objs[key] = outp
        self.sources[path] = file_sha(path)
        return outp

    # goto-cc's C front end rejects `cond ? 0 : array` (null pointer constant
    # against an array operand).  The three return statements of crypt.c that
    # use it are rewritten, on a copy, to the equivalent `cond ? (char *)0 :
    # &array[0]`; #line keeps source locations pointing at /repo.
    FIXUPS = [(re.compile(r"\? 0 : (\w+)->output;"), r"? (char *) 0 : &\1->output[0];")]

    def frontend_fixup(self, path):
        if not path.startswith(REPO):
            return path
        with open(path, errors="replace") as f:
            txt = f.read()
        new = txt
        for rx, rep in self.FIXUPS:
            new = rx.sub(rep, new)
        if new == txt and not self.scale:
            return path
        d = os.path.join(self.dir, "fixup")
        os.makedirs(d, exist_ok=True)
        outp = os.path.join(d, os.path.basename(path))
        with open(outp, "w") as f:
            f.write('#line 1 "%s"\n' % path)
            f.write(new)
        self.fixups_applied = getattr(self, "fixups_applied", []) + [os.path.basename(path)]
        return outp

    def resolve(self, src):
        if os.path.isabs(src):
            return src
        for base in (LIB, VERIF):
            p = os.path.join(base, src)
            if os.path.exists(p):
                return p
        raise VerifError("source not found: " + src)

    def remove_bodies(self, obj, funcs, out=None):
        out = out or obj.replace(".gb", "-rb%s.gb" % hashlib.md5(
            repr(sorted(funcs)).encode()).hexdigest()[:6])
        with self.lock:
            if os.path.exists(out):
                return out
            return self._remove_bodies(obj, funcs, out)

    def _remove_bodies(self, obj, funcs, out):
        cmd = ["goto-instrument"]
        for f in funcs:
            cmd += ["--remove-function-body", f]
        cmd += [obj, out]
        sh(cmd)
        return out

    def link(self, name, objs):
        out = os.path.join(self.dir, name + ".gb")
        sh(["goto-cc", "-o", out] + objs)
        return out

    def loops(self, binary):
        """Return {loop_id: (file, line, function)} from goto-instrument --show-loops."""
        p = sh(["goto-instrument", "--show-loops", binary])
        res = {}
        cur = None
        for line in p.stdout.splitlines():
            m = re.match(r"^Loop (\S+):", line)
            if m:
                cur = m.group(1)
                continue
            m = re.match(r"^\s+file (\S+) line (\d+)(?: function (\S+))?", line)
            if m and cur:
                res[cur] = (m.group(1), int(m.group(2)), m.group(3))
                cur = None
        return res

    def sub(self, suffix, **kw):
        """A second build directory (other configuration) cleaned up with this one."""
        b = Build(self.tag + "-" + suffix, **kw)
        self.children = getattr(self, "children", []) + [b]
        return b

    def cleanup(self):
        for c in getattr(self, "children", []):
            c.cleanup()
        shutil.rmtree(self.dir, ignore_errors=True)


_SRC_CACHE = {}


def src_line(path, line):
    if path not in _SRC_CACHE:
        try:
            with open(path, errors="replace") as f:
                _SRC_CACHE[path] = f.read().splitlines()
        except OSError:
            _SRC_CACHE[path] = []
    lines = _SRC_CACHE[path]
    return lines[line - 1] if 0 < line <= len(lines) else ""


class Query:
    """One CBMC query.

    harness   : C file under /verif/harness (entry function `harness`)
    units     : list of repo lib units; an entry may be a tuple
                (unit, [functions whose bodies are removed]) or
                (unit, [...], {"export_static": True})
    models    : list of /verif/models/*.c files
    defs      : -D for the harness and models
    unwind    : global --unwind
    loops     : list of (function_regex, source_regex, K, capped_bool): per-loop bound,
                resolved each run from --show-loops; capped loops are abstracted
                with --partial-loops and their unwinding assertion must FAIL.
    expect_fail: list of regexes over property descriptions/names expected to FAIL
                (reachability witnesses).  All must fail; everything else must pass.
    """

    def __init__(self, name, harness, units=(), models=(), defs=(), unwind=4,
                 loops=(), flags=(), timeout=600, mem_gb=12, entry="harness",
                 unit_defs=(), solver=None, note="", malloc_may_fail=False,
                 nondet_static=False, objects=None, slice_formula=True):
        self.name = name
        self.harness = harness
        self.units = list(units)
        self.models = list(models)
        self.defs = list(defs)
        self.unit_defs = list(unit_defs)
        self.unwind = unwind
        self.loops = list(loops)
        self.flags = list(flags)
        self.timeout = timeout
        self.mem_gb = mem_gb
        self.entry = entry
        self.solver = solver
        self.note = note
        self.malloc_may_fail = malloc_may_fail
        self.nondet_static = nondet_static
        self.slice_formula = slice_formula


class Result:
    def __init__(self, q):
        self.query = q
        self.name = q.name
        self.status = "error"     # pass | fail | error | timeout
        self.detail = ""
        self.failures = []        # unexpected failed properties
        self.witnesses = []       # expected failures that did fail
        self.missing_witnesses = []
        self.capped = []
        self.n_props = 0
        self.wall = 0.0
        self.rss_mb = 0
        self.cmd = ""
        self.trace_inputs = {}
        self.loops_bound = {}
        self.functions = []

    def to_json(self):
        return {
            "query": self.name, "status": self.status, "detail": self.detail[:600],
            "properties_checked": self.n_props,
            "unexpected_failures": [f["property"] + ": " + f["description"] for f in self.failures][:10],
            "witnesses_reached": self.witnesses, "capped_loops": self.capped,
            "loop_bounds": self.loops_bound,
            "wall_s": round(self.wall, 1), "peak_rss_mb": self.rss_mb,
            "cmd": self.cmd, "note": self.query.note,
        }


def _limit(mem_gb):
    def f():
        os.setsid()
        lim = int(mem_gb * (1 << 30))
        resource.setrlimit(resource.RLIMIT_AS, (lim, lim))
    return f


def run_query(build, q):
    build = getattr(q, "build", None) or build
    r = Result(q)
    t0 = time.time()
    try:
        _run_query(build, q, r)
    except VerifError as e:
        r.status = "error"
        r.detail = str(e)
    except subprocess.TimeoutExpired:
        r.status = "timeout"
        r.detail = "timeout after %ds" % q.timeout
    r.wall = time.time() - t0
    return r


def _exec_cbmc(build, q, cmd, tag, timeout):
    outf = os.path.join(build.dir, tag + ".out.json")
    with open(outf, "w") as fo:
        p = subprocess.Popen(["/usr/bin/time", "-f", "VFRSS %M", "-o", outf + ".rss"] + cmd,
                             stdout=fo, stderr=subprocess.PIPE, text=True,
                             preexec_fn=_limit(q.mem_gb))
        try:
            _, err = p.communicate(timeout=timeout)
        except subprocess.TimeoutExpired:
            try:
                os.killpg(p.pid, 9)
            except OSError:
                pass
            p.wait()
            raise
    rss = 0
    try:
        with open(outf + ".rss") as f:
            m = re.search(r"VFRSS (\d+)", f.read())
            rss = int(m.group(1)) // 1024 if m else 0
    except OSError:
        pass
    try:
        with open(outf) as f:
            data = json.load(f)
    except Exception as e:
        raise VerifError("cbmc died (rc=%s; 139=segfault, 137/-9=killed or out of memory, rss %d MB): %s" % (
            p.returncode, rss, (err or "")[-300:]))
    p.vf_rss = rss
    return data, p, err


def _run_query(build, q, r):
    objs = []
    for u in q.units:
        opts = {}
        rm = []
        if isinstance(u, tuple):
            if len(u) > 2:
                opts = u[2]
            rm = u[1]
            u = u[0]
        o = build.cc(u, defs=tuple(q.unit_defs) + tuple(opts.get("defs", ())),
                     export_static=opts.get("export_static", False))
        if rm:
            o = build.remove_bodies(o, rm)
        objs.append(o)
    for m in q.models:
        objs.append(build.cc(os.path.join("models", m) if not m.startswith("/") and not m.startswith("models/") and not m.startswith("harness/") else m,
                             defs=tuple(q.defs)))
    hsrc = q.harness if q.harness.startswith("/") else os.path.join(VERIF, "harness", q.harness)
    objs.append(build.cc(hsrc, defs=tuple(q.defs), out=q.name + "-h.gb"))
    binary = build.link(q.name, objs)

    # resolve loops
    loops = build.loops(binary)
    unwindset = []
    capped_ids = []
    for spec in q.loops:
        freg, sreg, k, capped = spec
        hits = []
        for lid, (f, line, fn) in loops.items():
            fname = re.sub(r"^__CPROVER_file_local_\w+?_c_", "", lid.rsplit(".", 1)[0])
            if not re.search(freg, fname):
                continue
            if isinstance(sreg, int):
                # ordinal of the loop inside its function (for loops whose source text is not unique)
                if lid.rsplit(".", 1)[1] == str(sreg):
                    hits.append(lid)
            elif sreg is None or re.search(sreg, src_line(f, line)):
                hits.append(lid)
        if not hits:
            if getattr(q, "loops_optional", False) and not capped:
                continue   # generic bound table: loops of units not linked into this query
            # A cap that no longer matches any loop must not silently vanish.
            raise VerifError("loop spec %r matched no loop in %s" % (spec, q.name))
        for lid in hits:
            unwindset.append("%s:%d" % (lid, k))
            r.loops_bound[lid] = k
            if capped:
                capped_ids.append(lid)
    # loops of CBMC's built-in library models are added only when cbmc itself runs,
    # so --show-loops does not list them; bound them by name
    sb = getattr(q, "str_bound", None)
    if sb:
        for fn in ("strlen", "strncmp", "strcmp", "strchr", "strrchr", "memcmp", "memchr", "strcpy", "strncpy"):
            unwindset.append("%s.0:%d" % (fn, sb))
    cmd = ["cbmc", binary, "--function", q.entry, "--unwind", str(q.unwind)]
    cmd += [f for f in BASE_FLAGS if not (q.malloc_may_fail and f == "--no-malloc-may-fail")]
    if q.malloc_may_fail:
        cmd += ["--malloc-may-fail", "--malloc-fail-null"]
    if q.slice_formula:
        cmd.append("--slice-formula")
    if unwindset:
        cmd += ["--unwindset", ",".join(unwindset)]
    if capped_ids:
        cmd.append("--partial-loops")
    if q.nondet_static:
        cmd.append("--nondet-static")
    if q.solver:
        cmd += q.solver
    cmd += q.flags
    base_cmd = list(cmd)
    cmd = base_cmd + ["--json-ui"]
    r.cmd = " ".join(cmd)
    data, p, err = _exec_cbmc(build, q, cmd, q.name, q.timeout)
    r.rss_mb = getattr(p, "vf_rss", 0)
    results = None
    msgs = []
    for item in data:
        if "result" in item:
            results = item["result"]
        if item.get("messageType") in ("ERROR",):
            msgs.append(item.get("messageText", ""))
    if results is None:
        raise VerifError("no result array in cbmc output: rc=%s %s | %s" % (
            p.returncode, "; ".join(msgs)[-300:], (err or "")[-200:]))
    r.n_props = len(results)
    exp = [re.compile(x) for x in getattr(q, "expect_fail", [r"WITNESS"])]
    seen_exp = set()
    for pr in results:
        name = pr.get("property", "")
        desc = pr.get("description", "")
        st = pr.get("status")
        is_unwind = ".unwind." in name
        _strip = lambda x: re.sub(r"^__CPROVER_file_local_\w+?_c_", "", x)
        is_capped = is_unwind and _strip(name.replace(".unwind.", ".")) in [_strip(c) for c in capped_ids]
        is_wit = any(e.search(desc) for e in exp)
        if st == "SUCCESS":
            if is_capped:
                # the cap was not active: loop finished within K; fine, just note it
                pass
            continue
        if st == "FAILURE":
            if is_capped:
                r.capped.append(name)
                continue
            if is_wit:
                r.witnesses.append(desc)
                for i, e in enumerate(exp):
                    if e.search(desc):
                        seen_exp.add(i)
                if not r.trace_inputs and "trace" in pr:
                    r.witness_trace = extract_inputs(pr["trace"])
                continue
            if is_unwind:
                # a bound that is too small gives no verdict; it is not a violation
                r.unwind_fail = getattr(r, "unwind_fail", []) + [name]
                r.unwind_inputs = extract_inputs(pr.get("trace", []))
                continue
            if ".pointer_arithmetic." in name and "outside object bounds" in desc:
                # forming (not dereferencing) an out-of-bounds pointer: standard-level UB that
                # no sanitizer confirms; reported separately, never as a violation
                r.ub_suspect = getattr(r, "ub_suspect", []) + ["%s line %s: %s" % (name, pr.get("sourceLocation", {}).get("line"), desc)]
                continue
            f = {"property": name, "description": desc,
                 "location": pr.get("sourceLocation", {}),
                 "inputs": extract_inputs(pr.get("trace", []))}
            r.failures.append(f)
            continue
        r.unknown = getattr(r, "unknown", 0) + 1
    # counterexample: re-run for the first unexpected failure only, with --trace
    # (building JSON traces for every reachability witness dominated the run time)
    for f in (r.failures[:1] + ([{"property": r.unwind_fail[0], "_unwind": True}] if getattr(r, "unwind_fail", None) and not r.failures else [])):
        try:
            tdata, _, _ = _exec_cbmc(build, q, base_cmd + ["--property", f["property"], "--json-ui", "--trace"],
                                     q.name + ".trace", min(q.timeout, 600))
            for item in tdata:
                for pr in item.get("result", []) if isinstance(item, dict) else []:
                    if pr.get("property") == f["property"] and "trace" in pr:
                        if f.get("_unwind"):
                            r.unwind_inputs = extract_inputs(pr["trace"])
                        else:
                            f["inputs"] = extract_inputs(pr["trace"])
        except (VerifError, subprocess.TimeoutExpired) as e:
            f["inputs"] = {"_trace_error": str(e)[:200]}
    # witnesses declared in the harness (by scanning its text) must all have failed
    with open(hsrc) as f:
        htxt = f.read()
    declared = set("WITNESS " + x for x in re.findall(r'VF_WITNESS\("([^"]*)"\)', htxt))
    # only those compiled in: present in results
    present = set(pr.get("description", "") for pr in results)
    for w in declared:
        if w in present and w not in r.witnesses:
            r.missing_witnesses.append(w)
    if not any(w.startswith("WITNESS") for w in present):
        raise VerifError("harness %s has no reachability witness" % q.name)
    if getattr(r, "unwind_fail", None):
        # with --partial-loops a loop that exceeds its bound is left early and execution
        # continues, so every other verdict of this run may be an artefact
        raise VerifError("unwinding bound too small (no verdict): " + ", ".join(r.unwind_fail[:6]) + " inputs=" + json.dumps(getattr(r, "unwind_inputs", {}))[:400])
    if getattr(r, "unknown", 0) and not r.failures and not getattr(r, "ub_suspect", None):
        raise VerifError("%d properties have status UNKNOWN without any failure" % r.unknown)
    if r.failures:
        r.status = "fail"
        r.detail = "; ".join(f["property"] + ": " + f["description"] for f in r.failures[:5])
    elif r.missing_witnesses:
        r.status = "error"
        r.detail = "vacuous: witness not reachable: " + ", ".join(r.missing_witnesses)
    else:
        r.status = "pass"


def extract_inputs(trace):
    """Collect the last assigned value of every harness-level variable whose name
    starts with in_ (scalars and arrays), from a CBMC JSON trace."""
    vals = {}
    for step in trace:
        if step.get("stepType") != "assignment":
            continue
        lhs = step.get("lhs", "")
        if "in_" not in lhs:
            continue
        base = re.split(r"[\[.]", lhs)[0]
        if not base.startswith("in_"):
            continue
        v = step.get("value", {})
        val = _val(v)
        m = re.match(r"^(\w+)\[(\d+)[lu]*\]$", lhs.replace("L", "").replace("l", "").replace("u", ""))
        m = re.match(r"^(\w+)\[(\d+)\w*\]$", lhs)
        if m:
            arr = vals.setdefault(m.group(1), {})
            if isinstance(arr, dict):
                arr[int(m.group(2))] = val
            else:
                if int(m.group(2)) < len(arr):
                    arr[int(m.group(2))] = val
        elif lhs == base:
            vals[base] = val
    out = {}
    for k, v in vals.items():
        if isinstance(v, dict):
            n = max(v) + 1 if v else 0
            out[k] = [v.get(i, 0) for i in range(n)]
        else:
            out[k] = v
    return out


def _val(v):
    if "elements" in v:
        return [_val(e.get("value", {})) for e in v["elements"]]
    if "members" in v:
        return {m.get("name"): _val(m.get("value", {})) for m in v["members"]}
    d = v.get("data")
    if d is None:
        return None
    if v.get("name") == "pointer":
        return d
    try:
        s = re.sub(r"[uUlL]+$", "", str(d))
        if s.startswith("'"):
            return d
        return int(s, 0) if not s.startswith("0") or s.startswith("0x") or s == "0" else int(s)
    except ValueError:
        return d


def run_queries(build, queries, jobs=None):
    jobs = jobs or min(16, os.cpu_count() or 4)
    # pre-compile sequentially-safe: compile in the worker (files are distinct per key)
    # but Build.objs is shared; guard by compiling units up front in parallel threads.
    results = []
    with cf.ThreadPoolExecutor(max_workers=jobs) as ex:
        futs = {ex.submit(run_query, build, q): q for q in queries}
        for fu in cf.as_completed(futs):
            r = fu.result()
            sys.stderr.write("[%s] %-40s %-7s %6.1fs %5dMB %s\n" % (
                build.tag, r.name, r.status, r.wall, r.rss_mb, r.detail[:160]))
            sys.stderr.flush()
            results.append(r)
    results.sort(key=lambda r: r.name)
    return results
