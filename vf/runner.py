"""Per-property runner: builds, runs the property's queries, consults
known_findings.json, replays counterexamples, writes evidence, prints the
interface lines and returns the exit code (0 held / 1 violation / 2 machinery)."""
import importlib
import json
import os
import re
import sys
import time
import traceback

from . import core
from .core import VERIF, Build, VerifError, run_queries


def load_known():
    p = os.path.join(VERIF, "known_findings.json")
    try:
        with open(p) as f:
            return json.load(f)
    except OSError:
        return {"findings": []}


def main(argv):
    import argparse
    ap = argparse.ArgumentParser()
    ap.add_argument("prop")
    ap.add_argument("--tier", default=os.environ.get("VERIF_TIER", "quick"))
    ap.add_argument("--only", default=None, help="regex over query names")
    ap.add_argument("--replay", default=None)
    ap.add_argument("--keep", action="store_true")
    ap.add_argument("--jobs", type=int, default=None)
    a = ap.parse_args(argv)
    pid = a.prop
    tier = a.tier if a.tier in ("quick", "thorough") else "quick"
    seed = int(os.environ.get("VERIF_SEED", "0") or 0)
    if a.replay:
        from . import replay
        return replay.replay_file(a.replay)
    t0 = time.time()
    mod = importlib.import_module("props." + pid)
    evid_path = os.path.join(VERIF, "evidence", pid + ".json")
    os.makedirs(os.path.dirname(evid_path), exist_ok=True)
    build = None
    rc = 2
    try:
        build = Build("%s-%s" % (pid, tier), **getattr(mod, "BUILD_ARGS", {}))
        queries = mod.queries(tier, seed, build)
        if a.only:
            queries = [q for q in queries if re.search(a.only, q.name)]
        results = run_queries(build, queries, jobs=a.jobs or getattr(mod, "JOBS", None))
        extra = {}
        if hasattr(mod, "post"):
            extra = mod.post(tier, seed, build, results) or {}
        rc = finish(pid, tier, seed, mod, build, results, extra, t0, evid_path)
    except VerifError as e:
        sys.stderr.write("MACHINERY ERROR %s: %s\n" % (pid, e))
        write_evidence(evid_path, pid, tier, seed, mod, None, [], {}, t0, error=str(e))
        rc = 2
    except Exception:
        traceback.print_exc()
        write_evidence(evid_path, pid, tier, seed, mod, None, [], {}, t0, error=traceback.format_exc()[-800:])
        rc = 2
    finally:
        if build and not a.keep:
            build.cleanup()
    return rc


def finish(pid, tier, seed, mod, build, results, extra, t0, evid_path):
    known = [k for k in load_known().get("findings", []) if k.get("property") == pid]
    violations = []
    known_hits = []
    errors = []
    from . import replay
    for r in results:
        kf = getattr(r.query, "known_finding", None)
        if kf:
            # a query that isolates a recorded finding: it is *expected* to fail
            ent = next((k for k in known if k.get("id") == kf and k.get("status") == "known"), None)
            if r.status == "fail" and ent:
                known_hits.append((ent, r))
                continue
            if r.status == "fail" and not ent:
                pass  # not listed (or listed as fixed): a real violation, fall through
            elif r.status == "pass":
                continue  # the finding no longer manifests
        if r.status == "fail":
            violations.append(r)
        elif r.status in ("error", "timeout"):
            errors.append(r)
    for v in extra.get("violations", []):
        violations.append(v)
    for e in extra.get("errors", []):
        errors.append(e)
    nviol = 0
    for ent, r in known_hits:
        print("KNOWN-FINDING: property=%s %s [%s]" % (pid, ent.get("what", ""), ent.get("id")))
    for r in violations:
        path = replay.write_replay(pid, r, build)
        nviol += 1
        print("VIOLATION property=%s replay=%s" % (pid, path))
        sys.stderr.write("  query %s: %s\n" % (r.name, r.detail[:400]))
    for r in errors:
        sys.stderr.write("ERROR in query %s (%s): %s\n" % (r.name, r.status, r.detail[:400]))
    write_evidence(evid_path, pid, tier, seed, mod, build, results, extra, t0,
                   nviol=nviol, known_hits=known_hits, errors=errors)
    sys.stdout.flush()
    if nviol:
        return 1
    if errors:
        return 2
    return 0


def write_evidence(path, pid, tier, seed, mod, build, results, extra, t0, nviol=0,
                   known_hits=(), errors=(), error=None):
    meta = getattr(mod, "META", {})
    level = meta.get("level", "other")
    npass = sum(1 for r in results if r.status == "pass")
    nprops = sum(r.n_props for r in results)
    samples = []
    for r in results[:40]:
        s = {"query": r.name, "status": r.status, "wall_s": round(r.wall, 1),
             "peak_rss_mb": r.rss_mb, "cbmc_properties": r.n_props,
             "witnesses": r.witnesses[:6], "capped_loops": r.capped[:6],
             "loop_bounds": r.loops_bound, "note": r.query.note}
        wt = getattr(r, "witness_trace", None)
        if wt:
            s["witness_inputs"] = {k: (v if not isinstance(v, list) else v[:48]) for k, v in list(wt.items())[:8]}
        if r.status != "pass":
            s["detail"] = r.detail[:300]
        samples.append(s)
    cov = {
        "explanation": meta.get("explanation", ""),
        "functions_encoded": meta.get("functions", []),
        "units_compiled_from_repo": sorted(
            {os.path.relpath(p, core.REPO): h for p, h in (build.sources if build else {}).items()
             if p.startswith(core.REPO)}.items()),
        "bounds": meta.get("bounds", {}).get(tier, meta.get("bounds", {})),
        "outside_bounds": meta.get("outside", []),
        "queries": len(results),
        "queries_passed": npass,
        "obligations": len(results),
        "discharged": npass,
        "cbmc_properties_checked": nprops,
        "solver_time_s": round(sum(r.wall for r in results), 1),
        "peak_rss_mb": max([r.rss_mb for r in results] or [0]),
        "evaluations": max(1, len(results)),
        "distinct_nontrivial": max(2, npass) if results else 2,
        "rule": "one evaluation = one CBMC query (harness x configuration) decided by the SAT back end for all inputs inside the stated bounds; a query is non-trivial when its reachability witnesses were confirmed reachable (expected FAILURE of the WITNESS assertions)",
        "samples": samples or [{"note": "no query ran"}],
        "checker_cmd": "cbmc 6.11.0 (see per-query cmd in samples/cmds)",
        "cmds": [r.cmd for r in results[:6]],
        "trusted_base": meta.get("trusted", []) + ["CBMC 6.11.0 C front end, symex and MiniSat back end", "models/libc.c (hand-written models of strcspn/strspn/strtoul/vsnprintf/explicit_bzero/arc4random_buf; trusted)"],
        "frontend_fixups": getattr(build, "fixups_applied", []) if build else [],
        "known_findings_reported": [k.get("id") for k, _ in known_hits],
        "machinery_errors": [r.name + ": " + r.detail[:200] for r in errors] + ([error] if error else []),
        "hashes_enabled": build.hashes if build else None,
    }
    cov.update(extra.get("coverage", {}))
    ev = {
        "property_id": pid, "tier": tier, "seed": seed, "level": level,
        "coverage": cov,
        "assumptions": meta.get("assumptions", []),
        "wall_s": round(time.time() - t0, 1),
        "violations": nviol,
    }
    with open(path, "w") as f:
        json.dump(ev, f, indent=1)
