import sys,json,os
sys.path.insert(0,'/verif')
from vf.core import *
from props.methods import *
b=Build('t3')
names=sys.argv[1:] or ["md5crypt"]
qs=[method_query(BY_NAME[n],"m-"+n,timeout=int(os.environ.get('TO','300'))) for n in names]
rs=run_queries(b,qs)
for r in rs:
    print(r.name,r.status,r.detail[:300])
    for f in r.failures[:4]: print(r.name,f['property'],f['description'],f['location'].get('line'),str(f['inputs'])[:300])
