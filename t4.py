import sys,json,os
sys.path.insert(0,'/verif')
from vf.core import *
from props.common import *
b=Build('t4',scale=(256,288))
API_UNITS=["crypt.c","crypt-static.c","util-make-failure-token.c"]
qs=[]
for ep in sys.argv[1:] or ["EP_RN"]:
  for pk,sk,grp in ((1,1,"CHECK_RESULT"),(1,1,"CHECK_PTRS"),(1,1,"CHECK_FIELDS"),(1,1,"CHECK_ERASE")):
    q=Query("api-%s-p%ds%d-%s"%(ep,pk,sk,grp),"api_crypt.c",units=API_UNITS,models=["libc.c","method_stub.c"],defs=[ep,"MAX_S=8","MAX_P=4","STUB_MAXLEN=8","PKIND=%d"%pk,"SKIND=%d"%sk,grp],unwind=6,
        loops=[("^harness$",None,800,False),("^vf_oracle_init$|^stub$",None,12,False)]+lib_loops(14),timeout=int(os.environ.get("TO","300")))
    q.loops_optional=True; q.str_bound=(520 if pk==2 else 14)
    qs.append(q)
rs=run_queries(b,qs)
for r in rs:
    print(r.name,r.status,r.detail[:300])
    for f in r.failures[:4]: print(r.name,f['property'],f['description'],f['location'].get('line'),{k:v for k,v in f['inputs'].items() if k in('in_pkind','in_skind','in_plen','in_slen','in_size','in_setting')})
