import sys,json,os
sys.path.insert(0,'/verif')
from vf.core import *
b=Build('t7')
loops=[("^harness$|^bf64$",None,70,False)]
for n in (0,1,3,4,6,7,8,9): loops.append((r"^BF_crypt$", n, 1, True))
for n,k in ((2,10),(5,6)): loops.append((r"^BF_crypt$", n, k, False))
loops += [(r"^BF_set_key$",None,20,False),(r"^BF_decode$|^BF_encode$",None,12,False),(r"^BF_swap$",None,8,False)]
q=Query("bf-crypt","bf_crypt.c",units=[("crypt-bcrypt.c",[],{"export_static":True})],models=["libc.c"],defs=["MAX_P=2"],unwind=6,loops=loops,timeout=int(os.environ.get("TO","900")),mem_gb=24)
q.flags=["--verbosity","9"]
rs=run_queries(b,[q])
for r in rs:
    print(r.name,r.status,r.detail[:400])
    for f in r.failures[:3]: print(' ',f['property'],f['description'],f['location'].get('line'),str(f['inputs'])[:300])
