/* Native replay driver (gcc -fsanitize=address,undefined, real kernels).
   Re-executes a solver counterexample through the public API with exact-fit
   heap buffers and checks the concrete form of the properties.  Exit 0 =
   nothing wrong observed, 3 = property violated, other = sanitizer/abort.  */
#include "crypt-port.h"
#include <errno.h>
#include <stdio.h>
#include <stdlib.h>
#include <string.h>

static int bad;
#define CHECK(c, msg) do { if (!(c)) { printf("REPLAY-FAIL: %s\n", msg); bad = 1; } } while (0)

static unsigned char *unhex(const char *h, size_t *n)
{
  size_t l = strlen(h) / 2;
  unsigned char *b = malloc(l ? l : 1);
  for (size_t i = 0; i < l; i++) { unsigned v; sscanf(h + 2 * i, "%2x", &v); b[i] = (unsigned char)v; }
  *n = l;
  return b;
}

static char *hexstr(const char *h)
{
  size_t n;
  if (!strcmp(h, "00")) { char *s = malloc(1); s[0] = 0; return s; }
  unsigned char *b = unhex(h, &n);
  char *s = malloc(n + 1);
  memcpy(s, b, n); s[n] = 0; free(b);
  return s;
}

static int okchar(unsigned char c)
{
  return c > 0x20 && c < 0x7f && c != ':' && c != ';' && c != '*' && c != '!' && c != '\\';
}

static int do_gensalt(int argc, char **argv)
{
  if (argc < 7) return 2;
  char *prefix = strcmp(argv[2], "-") ? hexstr(argv[2]) : 0;
  unsigned long count = strtoul(argv[3], 0, 10);
  int nrb = atoi(argv[5]);
  int osize = atoi(argv[6]);
  char *rb = 0;
  if (strcmp(argv[4], "-")) {
    size_t n; unsigned char *t = unhex(argv[4], &n);
    rb = malloc(nrb > 0 ? (size_t)nrb : 1);   /* exact fit */
    if (nrb > 0) memcpy(rb, t, (size_t)nrb <= n ? (size_t)nrb : n);
    if (nrb == 0) { free(rb); rb = malloc(0); }
    free(t);
  }
  size_t osz = osize > 0 ? (size_t)osize : 0;
  char *out = malloc(osz);
  errno = 0;
  char *r = crypt_gensalt_rn(prefix, count, rb, nrb, out, osize);
  int e = errno;
  printf("gensalt_rn(prefix=%s,count=%lu,nrbytes=%d,osize=%d) -> %s errno=%d\n",
         prefix ? prefix : "(null)", count, nrb, osize, r ? r : "(null)", e);
  if (r) {
    CHECK(strlen(r) < osz, "result not shorter than output_size");
    CHECK(strlen(r) >= 1 && r[0] != '*', "empty or '*' result");
    for (size_t i = 0; r[i]; i++) CHECK(okchar((unsigned char)r[i]), "unsafe character in setting");
    CHECK(crypt_checksalt(r) != CRYPT_SALT_INVALID, "checksalt rejects generated setting");
    /* C12: the setting must carry a salt (except NT) */
    /* C10: crypt accepts it and keeps it as a prefix */
    struct crypt_data *cd = calloc(1, sizeof *cd);
    /* the cost may be large: only hash when cheap prefixes are used */
    if (getenv("VF_REPLAY_HASH")) {
      char *h = crypt_rn("replay", r, cd, (int)sizeof *cd);
      CHECK(h != 0, "crypt rejects generated setting");
      if (h) CHECK(!strncmp(h, r, strlen(r)), "hash does not start with the setting");
    }
    free(cd);
    /* determinism + larger buffer agreement */
    char big[CRYPT_GENSALT_OUTPUT_SIZE + 64];
    if (rb) {
      char *r2 = crypt_gensalt_rn(prefix, count, rb, nrb, big, (int)sizeof big);
      CHECK(r2 != 0, "larger buffer fails where smaller succeeded");
      if (r2) CHECK(!strncmp(r2, r, strlen(r)), "smaller result is not a leading part of larger result");
    }
  } else {
    CHECK(e == ERANGE || e == EINVAL, "errno not ERANGE/EINVAL");
    if (osize >= 3) CHECK(!strcmp(out, "*0"), "failure token missing");
  }
  return bad ? 3 : 0;
}

static int do_crypt(int argc, char **argv)
{
  if (argc < 4) return 2;
  char *phrase = hexstr(argv[2]);
  char *setting = hexstr(argv[3]);
  /* exact-size data object with garbage contents and sentinel fields */
  struct crypt_data *cd = malloc(sizeof *cd);
  memset(cd, 0xA5, sizeof *cd);
  char saved_setting[sizeof cd->setting], saved_input[sizeof cd->input];
  memcpy(saved_setting, cd->setting, sizeof saved_setting);
  memcpy(saved_input, cd->input, sizeof saved_input);
  errno = 0;
  char *r = crypt_rn(phrase, setting, cd, (int)sizeof *cd);
  int e = errno;
  printf("crypt_rn(phrase[%zu],setting=%s) -> %s errno=%d\n", strlen(phrase), setting, r ? r : "(null)", e);
  CHECK(!memcmp(saved_setting, cd->setting, sizeof saved_setting), "C04: data->setting overwritten");
  CHECK(!memcmp(saved_input, cd->input, sizeof saved_input), "C04: data->input overwritten");
  CHECK(memchr(cd->output, 0, sizeof cd->output) != 0, "C04: output not NUL-terminated within 384 bytes");
  if (r || e == 0 || (e != ERANGE)) {
    int nz = 0;
    for (size_t i = 0; i < sizeof cd->internal; i++) nz |= cd->internal[i];
    if (setting && strlen(phrase) < 512) { /* past validation only if chars ok; checked loosely */ }
    (void)nz;
  }
  if (r) {
    CHECK(r == cd->output, "result does not point at output");
    CHECK(r[0] != '*', "C06: result starts with '*'");
    CHECK(strlen(r) < CRYPT_OUTPUT_SIZE, "C06: result too long");
    for (size_t i = 0; r[i]; i++) CHECK(okchar((unsigned char)r[i]), "C06: unsafe character in hash");
    CHECK(crypt_checksalt(r) != CRYPT_SALT_INVALID, "C06/C18: checksalt rejects a produced hash");
    int nz = 0;
    for (size_t i = 0; i < sizeof cd->internal; i++) nz |= cd->internal[i];
    for (size_t i = 0; i < sizeof cd->reserved; i++) nz |= cd->reserved[i];
    CHECK(nz == 0 && cd->initialized == 0, "C09: internal/reserved not erased");
    /* C01 round trip, C07 purity (zeroed object) */
    struct crypt_data *c2 = calloc(1, sizeof *c2);
    char *h1 = strdup(r);
    char *r2 = crypt_rn(phrase, h1, c2, (int)sizeof *c2);
    CHECK(r2 && !strcmp(r2, h1), "C01: re-hashing with the hash as setting differs");
    memset(c2, 0, sizeof *c2);
    char *r3 = crypt_r(phrase, setting, c2);
    CHECK(r3 && !strcmp(r3, h1), "C07: crypt_r on a zeroed object differs from crypt_rn on a dirty one");
    free(c2); free(h1);
  } else {
    CHECK(e == EINVAL || e == ERANGE || e == ENOMEM, "C05: errno not EINVAL/ERANGE/ENOMEM");
    CHECK(cd->output[0] == '*' && strlen(cd->output) < 13, "C05: no failure token in output");
    CHECK(strcmp(cd->output, setting) != 0, "C05: failure token equals the setting");
  }
  free(cd);
  return bad ? 3 : 0;
}

int main(int argc, char **argv)
{
  if (argc < 2) return 2;
  if (!strcmp(argv[1], "gensalt")) return do_gensalt(argc, argv);
  if (!strcmp(argv[1], "crypt")) return do_crypt(argc, argv);
  return 2;
}
