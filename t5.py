import sys,json,os
sys.path.insert(0,'/verif')
from vf.core import *
from props.methods import *
b=Build('t5')
mode=sys.argv[1]
qs=[rel_query(BY_NAME[n],"r-%s-%s"%(mode.lower(),n),mode,timeout=int(os.environ.get('TO','600')),max_p=int(os.environ.get('MP','6')),max_s=(int(os.environ['MS']) if 'MS' in os.environ else None),extra_defs=os.environ.get('XD','').split()) for n in sys.argv[2:]]
rs=run_queries(b,qs)
for r in rs:
    print(r.name,r.status,r.detail[:300])
    for f in r.failures[:3]: print(' ',f['property'],f['description'],f['location'].get('line'),{k:(v if not isinstance(v,list) else v[:24]) for k,v in f['inputs'].items()})
