import sys,json,os
sys.path.insert(0,'/verif')
from vf.core import *
from props.methods import *
b=Build('t5')
mode=sys.argv[1]
qs=[]
for spec in sys.argv[2:]:
    n,pl,sl=spec.split(':')
    q=rel_query(BY_NAME[n],"r-%s-%s-p%s-s%s"%(mode.lower(),n,pl,sl),mode,timeout=int(os.environ.get('TO','900')),max_p=max(int(pl),1),max_s=max(int(sl),1),extra_defs=["FIX_PLEN="+pl,"FIX_SLEN="+sl]+os.environ.get('XD','').split())
    q.mem_gb=int(os.environ.get("MEM","12")); qs.append(q)
rs=run_queries(b,qs)
for r in rs:
    print(r.name,r.status,r.detail[:300])
