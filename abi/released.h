/* Frozen copy of the values compiled into programs built against the released
   <crypt.h> of libxcrypt 4.x (libcrypt.so.1).  NOT regenerated from /repo.  */
#define REL_SIZEOF_CRYPT_DATA 32768
#define REL_OFF_OUTPUT 0
#define REL_OFF_SETTING 384
#define REL_OFF_INPUT 768
#define REL_OFF_RESERVED 1280
#define REL_OFF_INITIALIZED 2047
#define REL_OFF_INTERNAL 2048
#define REL_CRYPT_OUTPUT_SIZE 384
#define REL_CRYPT_MAX_PASSPHRASE_SIZE 512
#define REL_CRYPT_GENSALT_OUTPUT_SIZE 192
#define REL_CRYPT_DATA_RESERVED_SIZE 767
#define REL_CRYPT_DATA_INTERNAL_SIZE 30720
#define REL_CRYPT_SALT_OK 0
#define REL_CRYPT_SALT_INVALID 1
#define REL_CRYPT_SALT_METHOD_DISABLED 2
#define REL_CRYPT_SALT_METHOD_LEGACY 3
#define REL_CRYPT_SALT_TOO_CHEAP 4
