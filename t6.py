import sys,json,os
sys.path.insert(0,'/verif')
from vf.core import *
from props.methods import *
b=Build('t6')
qs=[rel_query(BY_NAME[n],"p-%s"%n,"REL_PURE",timeout=1500,max_p=4) for n in sys.argv[1:]]
rs=run_queries(b,qs)
