"""C17: DES core and the obsolete setkey/encrypt API implement standard DES."""
from vf.core import Query

META = {
    "level": "other",
    "explanation": "Compositional, all SAT-decided on the real alg-des.c + alg-des-tables.c: (Q1,Q2) des_crypt_block with its round loop cut after 1 and after 2 iterations equals the bit-level FIPS 46-3 reference (models/ref_des.c, validated against the FIPS known answers) with 1 and 2 rounds for every block, every 16x48-bit round-key vector, every 24-bit salt mask and both directions; (Q3) des_set_key equals the FIPS key schedule for every 64-bit key, parity bits ignored; (Q4) des_set_salt is the 24-bit reversal; (Q5) pack_bits/unpack_bits and setkey_r/encrypt_r/setkey/encrypt over a functional model of the core: only bit 0 of each byte counts, outputs are 0/1, static and re-entrant variants agree and use the packed key/block.",
    "functions": ["des_crypt_block", "des_set_key", "des_set_salt", "pack_bits", "unpack_bits", "setkey_r", "encrypt_r", "setkey", "encrypt", "tables ip_mask*, fp_mask*, key_perm_mask*, comp_mask*, m_sbox, psbox"],
    "bounds": {"blocks/keys/salts": "all values (symbolic)", "rounds": "1 and 2 (composition lemma gives 16 and any count)"},
    "outside": ["the paper lemma that 1- and 2-round equality imply n-round equality (DESIGN.md C17)", "that the round loop runs exactly 16 times and the outer loop count times (loop bounds are not visible to a cut loop); covered by the repo's KATs"],
    "assumptions": ["models/ref_des.c is FIPS 46-3 (validated against three published known answers)"],
    "trusted": [],
    "claim": "Every entry of the 33 KiB of DES tables that a symbolic index can select, the E-box/salt logic, IP/FP and the key schedule are shown equal to the standard for all inputs by two small miters plus the key-schedule miter; the monolithic 16-round miter is out of reach (timed out on every back end) so equality for 16 rounds rests on the stated composition lemma.",
    "note": "Loop cut by --partial-loops (its unwinding assertion must fail, confirming the cut); reference model trusted after KAT validation.",
}
DES_UNITS = ["alg-des.c", "alg-des-tables.c"]


def queries(tier, seed, build):
    qs = []
    for k in (1, 2):
        q = Query("c17-round%d" % k, "des_round.c", units=DES_UNITS, models=["ref_des.c"],
                  defs=["NROUNDS=%d" % k], unwind=70,
                  loops=[("des_crypt_block", r"while \(--round\)|^\s*do\s*$|\bdo\b", k, True)], timeout=1200)
        qs.append(q)
    qs.append(Query("c17-keysched", "des_key.c", units=DES_UNITS, models=["ref_des.c"], defs=[], unwind=70, timeout=1200))
    q = Query("c17-obsolete", "des_obsolete.c", units=["crypt-des-obsolete.c"], models=["des_uf.c", "libc.c"],
              defs=["PIC"], unit_defs=["PIC"], unwind=70, loops=[("^harness$", None, 170, False)], timeout=1200)
    q.build = build.sub("scaled", scale=(256, 288))
    qs.append(q)
    return qs
