"""C15: allocation and mapping failures are reported cleanly and leak nothing."""
from vf.core import Query
from .api import API_UNITS, SCALE
from .common import lib_loops, cstr, GENSALT_UNITS
from .C14 import queries as c14_queries

BUILD_ARGS = {"scale": SCALE}
META = {
    "level": "other",
    "explanation": "Fault schedules are nondeterministic return values of the allocator-like calls, so the solver explores EVERY subset of failing positions, not only single faults. (1) crypt_yescrypt_rn and crypt_scrypt_rn (real) with init_local / yescrypt_r (the KDF and its mappings) / free_local (munmap) as fault-injecting stubs with a ledger: on any failure the output keeps the failure token and errno is set, free_local is called exactly once per successful init_local, nothing is held on return. (2) crypt_ra with a realloc that may fail (C14 harness): NULL, *data and *size untouched, so the next call re-grows correctly (the post-state satisfies the C14 invariant). (3) crypt_gensalt_ra with a malloc that may fail: NULL and nothing allocated (--memory-leak-check).",
    "functions": ["crypt_yescrypt_rn", "crypt_scrypt_rn", "crypt_ra", "crypt_gensalt_ra"],
    "bounds": {"settings": "one fixed valid setting per method for (1)", "fault positions": "all subsets"},
    "outside": ["crypt_gost_yescrypt_rn (same bracket; its post-processing of the KDF output - strchr/decode64/encode64 on a symbolic hash - did not finish in 900 s)", "alloc_region/free_region and the ALLOC_ONLY double pass inside yescrypt_kdf (alg-yescrypt-opt.c / -platform.c): modelled by the yescrypt_r stub, not encoded", "scratch erasure after a fault: covered by C09(a) for every method outcome"],
    "assumptions": ["stub contract of yescrypt_r/init_local/free_local (models/yescrypt_stub.c)", "scaled data object for crypt_ra"],
    "trusted": [],
    "claim": "For every fault schedule of the modelled calls the wrappers report failure without emitting a hash, set errno, release the region exactly once and leave the caller's (data,size) pair consistent; SAT-decided.",
    "note": "The yescrypt KDF internals are stubs; wrappers and crypt_ra/crypt_gensalt_ra are real.",
}


def queries(tier, seed, build):
    full = build.sub("full15")
    qs = []
    for name, fn, units, setting, extra in (
            ("yescrypt", "crypt_yescrypt_rn", ["crypt-yescrypt.c"], "$y$j9T$abcd", []),
            ("scrypt", "crypt_scrypt_rn", ["crypt-scrypt.c", "crypt-yescrypt.c"], "$7$C6..../....abcd", []),
            ):
        q = Query("c15-" + name, "yescrypt_fault.c", units=["util-xstrcpy.c", "util-base64.c"] + units,
                  models=["libc.c", "yescrypt_stub.c"] + (["digest_havoc.c"] if extra else []),
                  defs=["METHOD_FN=" + fn, "SETTING_STR=" + cstr(setting)] + extra, unwind=12,
                  loops=[("^harness$|yescrypt_r$", None, 70, False)] + lib_loops(120), timeout=900)
        q.loops_optional = True
        q.str_bound = 120
        q.build = full
        qs.append(q)
    for q in c14_queries(tier, seed, build):
        q.name = q.name.replace("c14-", "c15-")
        qs.append(q)
    return qs
