"""Query builders for the API-level harness (real crypt.c + contract stubs)."""
from vf.core import Query
from .common import lib_loops

API_UNITS = ["crypt.c", "crypt-static.c", "util-make-failure-token.c"]
# scaled-down data object: ALG_SPECIFIC_SIZE, CRYPT_DATA_INTERNAL_SIZE (see DESIGN.md 1.6)
SCALE = (256, 288)


def api_query(ep, pk, sk, grp, max_s=8, max_p=4, timeout=900, extra_defs=(), harness="api_crypt.c"):
    name = "api-%s-p%ds%d-%s" % (ep.lower().replace("ep_", ""), pk, sk, grp.lower().replace("check_", ""))
    sb = 520 if pk == 2 else max(max_s, max_p) + 6
    q = Query(name, harness, units=API_UNITS, models=["libc.c", "method_stub.c"],
              defs=[ep, "MAX_S=%d" % max_s, "MAX_P=%d" % max_p, "STUB_MAXLEN=8",
                    "PKIND=%d" % pk, "SKIND=%d" % sk, grp] + list(extra_defs),
              unwind=6,
              loops=[("^harness$", None, 800, False), ("^vf_oracle_init$|^stub$", None, 12, False)]
              + lib_loops(max(max_s, max_p) + 6),
              timeout=timeout)
    q.loops_optional = True
    q.str_bound = sb
    return q


def api_queries(groups, eps=("EP_RN", "EP_R", "EP_STATIC"), max_s=8, max_p=4, all_kinds=True, timeout=900):
    qs = []
    for ep in eps:
        for grp in groups:
            if ep == "EP_STATIC" and grp != "CHECK_RESULT":
                continue      # the static object is private: only results are observable
            qs.append(api_query(ep, 1, 1, grp, max_s, max_p, timeout))
        if all_kinds and "CHECK_RESULT" in groups:
            for pk, sk in ((0, 1), (2, 1), (1, 0), (0, 0)):
                qs.append(api_query(ep, pk, sk, "CHECK_RESULT", max_s, max_p, timeout))
    return qs
