"""C01: authentication round trip."""
from .methods import BY_NAME, rel_query

META = {
    "level": "other",
    "explanation": "Three-run relational queries on the real crypt_<m>_rn over UNINTERPRETED digest/cipher kernels (models/digest_uf.c, models/des_uf.c): run 1 on symbolic (phrase, setting) gives H; run 2 hashes the same phrase with H as the setting; run 3 with H whose digest characters are replaced by arbitrary characters of the method's alphabet. The solver shows out2 == out1 == out3 for every interpretation of the kernels, i.e. the methods canonicalise prefix, options and salt into the output and ignore the hash portion of a setting.",
    "functions": ["crypt_{descrypt,bigcrypt,bsdicrypt,nt}_rn", "crypt_md5crypt_rn (quick: phrase 2 / tail 9; thorough: a grid of concrete lengths)", "crypt_sha1crypt_rn (thorough)"],
    "bounds": {"quick": {"phrase": "<= 6 bytes (bigcrypt: 12 to cross the 8-byte segment and the phr>8 dispatch)", "setting tail": "per method up to 24 symbolic bytes: every salt length, terminator and trailing material that fits"},
               "thorough": {"stretching methods": "phrase/tail lengths case-split over (0,1),(2,4),(2,9),(3,12), contents symbolic; stretch loops cut after 2 iterations identically in all runs"}},
    "outside": ["sha256crypt, sha512crypt (three UF runs exhaust 12 GB even at phrase <= 4), yescrypt, scrypt, gost-yescrypt, bcrypt", "phrases longer than the bound (the phrase is passed through unchanged by every parser)", "KNOWN gap noted by a mutation author, not yet a recorded finding: scrypt ($7$) settings of 296..339 characters hash to a string that is then too long to be accepted as a setting"],
    "assumptions": ["ideal kernels: an assertion that holds for every interpretation of the uninterpreted absorb/out/DES functions holds for the real kernels", "scratch objects of the method's own size instead of 8192 bytes"],
    "trusted": [],
    "claim": "For every phrase/setting inside the bounds, re-hashing with the produced hash (or with its digest replaced by other alphabet text) reproduces it exactly; decided for all inputs and all kernel interpretations by SAT with Ackermann expansion of the uninterpreted functions.",
    "note": "Relational (3-run) query; kernels abstracted as uninterpreted functions; cut stretch loops.",
}


def queries(tier, seed, build):
    qs = [rel_query(BY_NAME["descrypt"], "c01-descrypt", "REL_RT", max_p=10),
          rel_query(BY_NAME["bigcrypt"], "c01-bigcrypt", "REL_RT", max_p=12, max_s=16),
          rel_query(BY_NAME["bsdicrypt"], "c01-bsdicrypt", "REL_RT", max_p=6),
          rel_query(BY_NAME["nt"], "c01-nt", "REL_RT", max_p=6)]
    # stretching methods: lengths are case-split (concrete per query), contents symbolic
    grid = [("md5crypt", 2, 9)] if tier == "quick" else \
        [(n, pl, sl) for n in ("md5crypt", "sha1crypt") for pl, sl in ((0, 1), (2, 4), (2, 9), (3, 12))
         if not (n == "sha1crypt" and (sl < 3 or sl > 9))]      # a sha1crypt tail needs at least "N$s"
    for n, pl, sl in grid:
        for part in (("RT_SELF_ONLY",) if tier == "quick" else ("RT_SELF_ONLY", "RT_ALT_ONLY")):
            qs.append(rel_query(BY_NAME[n], "c01-%s-p%d-s%d-%s" % (n, pl, sl, part[3:7].lower()), "REL_RT", max_p=max(pl, 1), max_s=max(sl, 1),
                                extra_defs=[part, "FIX_PLEN=%d" % pl, "FIX_SLEN=%d" % sl], timeout=1500 if tier == "quick" else 3000))
    return qs
