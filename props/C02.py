"""C02: hashes equal the published algorithms."""
from vf.core import Query
from .common import lib_loops

META = {
    "level": "other",
    "explanation": "'Hash equals specification' is decided in layers, as far as a SAT-based checker reaches. Layer 1 (this check): method STRUCTURE against a short independent transcription of the published algorithm over the same uninterpreted primitive - traditional descrypt (key bytes << 1, 12-bit salt, 25 salted encryptions of zero, 11-character big-endian base-64), NT (UCS-2LE expansion, MD4, lower-case hex), md5crypt (PHK's algorithm) and sha1crypt (NetBSD's HMAC-SHA1 chain), the last two with concrete lengths per query and the stretch loop cut after the same K rounds on both sides - for all phrases within the bound and all salts. Layer 2: the primitives, C16 (MD4/MD5 framing and padding, HMAC-SHA1 = RFC 2104) and C17 (DES = FIPS 46-3, complete). Layer 3 (compression functions, Blowfish, Salsa20/8, pwxform/smix, and the stretch-loop structure of md5crypt/sha*crypt/sunmd5/sha1crypt against their reference descriptions) is NOT reached.",
    "functions": ["crypt_descrypt_rn", "des_gen_hash", "ascii_to_bin", "crypt_nt_rn", "crypt_md5crypt_rn", "crypt_sha1crypt_rn"],
    "bounds": {"phrase": "<= 10 bytes (descrypt: crosses the 8-byte truncation), <= 6 (NT)", "salt": "all 4096 descrypt salts"},
    "outside": ["sha256crypt, sha512crypt, sunmd5, bigcrypt, bsdicrypt, bcrypt, yescrypt, scrypt, gost-yescrypt structure (reference transcriptions over UF digests were designed but the two-run UF queries exhaust memory for the stretching methods)", "all compression functions / block ciphers other than DES; seed C02-m2 (smix lane split) is not detected", "interoperability with other implementations beyond what the transcriptions state"],
    "assumptions": ["the transcriptions in harness/ref_struct.c are the published algorithms", "uninterpreted DES core / MD4: equality must hold for every interpretation"],
    "trusted": [],
    "claim": "Bounded structural equivalence for descrypt and NT (SAT, all salts/phrases in bound) on top of the primitive-level results of C16/C17; NOT a claim that every method equals its specification.",
    "note": "Most of C02 is outside what this technique reached in this round; see outside_bounds.",
}


def queries(tier, seed, build):
    qs = []
    q = Query("c02-descrypt-structure", "ref_struct.c", units=["util-xstrcpy.c", "util-base64.c", "crypt-des.c"],
              models=["libc.c", "des_uf.c"], defs=["R_DESCRYPT", "METHOD_FN=crypt_descrypt_rn", "MAX_P=10"], unwind=20,
              loops=[("^harness$", None, 95, False)] + lib_loops(20), timeout=900)
    q.loops_optional = True; q.str_bound = 20
    qs.append(q)
    q = Query("c02-nt-structure", "ref_struct.c", units=["util-xstrcpy.c", "util-base64.c", "crypt-nthash.c"],
              models=["libc.c", "digest_uf.c"], defs=["R_NT", "M_MD4", "METHOD_FN=crypt_nt_rn", "MAX_P=6"], unwind=20,
              loops=[("^harness$", None, 95, False), ("^absorb$", None, 10, False), ("^emit$", None, 10, False)] + lib_loops(40), timeout=900)
    q.loops_optional = True; q.str_bound = 40
    qs.append(q)
    # stretching methods: concrete lengths per query, stretch loop cut after K iterations in
    # the code under test AND in the transcription (ROUNDS_CUT)
    from .methods import BY_NAME
    K = 2
    grid = [(2, 5)] if tier == "quick" else [(0, 0), (2, 5), (3, 8), (17, 8), (5, 9)]
    for pl, sl in grid:
        m = BY_NAME["md5crypt"]
        q = Query("c02-md5crypt-structure-p%d-s%d" % (pl, sl), "ref_struct.c", units=["util-xstrcpy.c", "util-base64.c", "crypt-md5.c"],
                  models=["libc.c", "digest_uf.c"],
                  defs=["R_MD5CRYPT", "M_MD5", "METHOD_FN=crypt_md5crypt_rn", "MAX_P=%d" % max(pl, 1), "FIX_PLEN=%d" % pl, "FIX_SLEN=%d" % sl, "ROUNDS_CUT=%d" % K],
                  unwind=20, loops=[("^harness$|^to64r$", None, 95, False), ("^absorb$", None, 10, False), ("^emit$", None, 10, False),
                                    ("crypt_md5crypt_rn", r"cnt < 1000", K, True)] + m.extra_loops + lib_loops(60), timeout=1500)
        q.loops_optional = True; q.str_bound = 60
        qs.append(q)
    for pl, sl, it in ([(2, 4, "24680")] if tier == "quick" else [(0, 1, "1"), (2, 4, "24680"), (5, 8, "262144"), (70, 8, "3")]):
        q = Query("c02-sha1crypt-structure-p%d-s%d" % (pl, sl), "ref_struct.c", units=["util-xstrcpy.c", "util-base64.c", "crypt-pbkdf1-sha1.c"],
                  models=["libc.c", "digest_uf.c"],
                  defs=["R_SHA1CRYPT", "M_HMAC_SHA1", "METHOD_FN=crypt_sha1crypt_rn", "MAX_P=%d" % max(pl, 1), "FIX_PLEN=%d" % pl, "FIX_SLEN=%d" % sl,
                        'ITER_STR="%s"' % it, "ROUNDS_CUT=%d" % min(K, int(it) - 1)],
                  unwind=20, loops=[("^harness$|^to64r$", None, 95, False), ("^absorb$", None, 10, False), ("^emit$", None, 10, False),
                                    ("crypt_sha1crypt_rn", r"i < iterations", K, True), ("^to64$", None, 6, False)] + lib_loops(60), timeout=1500)
        q.loops_optional = True; q.str_bound = 60
        qs.append(q)
    return qs
