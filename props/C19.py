"""C19: every --enable-hashes selection yields a coherent library."""
import os
import random
import re
import subprocess
from vf.core import Query, LIB, VerifError
from .config import ALL, GROUPS, checksalt_query, PREFIX
from .common import lib_loops

META = {
    "level": "other",
    "explanation": "The configuration axis is ENUMERATED (preprocessor selections cannot be symbolic), the input axis is solver-decided inside each configuration. Per configuration: crypt-hashes.h/crypt.h are regenerated with the repo's own gen-* scripts, every lib/*.c unit is compiled by goto-cc (the library builds), and CBMC shows that the real get_hashfn/crypt_checksalt/crypt_preferred_method classify EVERY byte string up to the bound exactly as the independent classifier restricted to the enabled set says (so a disabled method's prefix is refused like an unknown one, and the default is the first enabled of yescrypt, bcrypt, sha512crypt or absent). For the DES family (the code shared under #if) two-build equivalence queries show that the entry a configuration dispatches to computes the same hashes as the full build's.",
    "functions": ["gen-crypt-hashes-h", "gen-crypt-h", "get_hashfn", "crypt_checksalt", "crypt_preferred_method", "crypt_bigcrypt_rn", "crypt_descrypt_rn", "all lib/*.c (compile)"],
    "bounds": {"quick": {"configurations": "all, strong, glibc, two seeded singletons, two seeded leave-one-out sets, bigcrypt-without-descrypt, descrypt-without-bigcrypt", "settings": "<= 6 bytes, all values"},
               "thorough": {"configurations": "all 16 singletons, all 16 leave-one-out sets, 10 named groups, all, 16 seeded random subsets", "settings": "<= 8 bytes"}},
    "outside": ["configurations not enumerated (2^16 - enumerated)", "equivalence with the full build for methods outside the DES family (their crypt_*_rn bodies contain no #if on other methods except crypt_yescrypt_rn's $7$ refusal)", "the configure script's own validation of the selection"],
    "assumptions": ["classifier and default order transcribed from the manual pages (props/config.py), not read from hashes.conf"],
    "trusted": [],
    "claim": "For each enumerated configuration: builds, and dispatch/default coherence holds for all short byte strings (SAT); DES-family sharing preserves hashes (two-build miter over a functional DES core).",
    "note": "configurations_enumerated is a list, not 'all'; see evidence.",
}
UNITS_ALL = sorted(f for f in os.listdir(LIB) if f.endswith(".c") and f not in ("gen-des-tables.c", "alg-yescrypt-platform.c"))


def renamed_unit(build, unit, tag):
    """Preprocess a unit for `build`'s configuration and prefix its exported method
    symbols with <tag>_ so two configurations can be linked into one query."""
    p = subprocess.run(["gcc", "-E"] + build.cflags() + [os.path.join(LIB, unit)],
                       stdout=subprocess.PIPE, stderr=subprocess.PIPE, text=True)
    if p.returncode:
        raise VerifError("gcc -E failed: " + p.stderr[-300:])
    txt = re.sub(r"\b_crypt_(crypt|gensalt)_", tag + r"_crypt_\1_", p.stdout)
    out = os.path.join(build.dir, "%s_%s.i.c" % (tag, unit.replace(".c", "")))
    with open(out, "w") as f:
        f.write(txt)
    return out


def configs(tier, seed):
    rnd = random.Random(seed)
    cs = [("all", list(ALL)), ("strong", GROUPS["strong"]), ("glibc", GROUPS["glibc"])]
    singles = [(m, [m]) for m in ALL]
    loo = [("no-" + m, [x for x in ALL if x != m]) for m in ALL]
    if tier == "quick":
        cs += rnd.sample(singles, 2) + rnd.sample(loo, 2)
    else:
        cs += singles + loo + [(g, v) for g, v in GROUPS.items() if g not in ("strong", "glibc")]
        for i in range(16):
            k = rnd.randint(2, 14)
            cs.append(("rnd%d" % i, sorted(rnd.sample(ALL, k), key=ALL.index)))
    seen, out = set(), []
    for n, v in cs:
        if tuple(v) not in seen:
            seen.add(tuple(v)); out.append((n, v))
    return out


def queries(tier, seed, build):
    qs = []
    ms = 6 if tier == "quick" else 8
    for name, enabled in configs(tier, seed):
        b = build.sub("cfg-" + name, hashes=",".join(enabled))
        # the library builds: every unit goes through the front end
        for u in UNITS_ALL:
            b.cc(u)
        q = checksalt_query("c19-dispatch-" + name, enabled, max_s=ms, build=b)
        q.note = "enabled: " + ",".join(enabled)
        qs.append(q)
    # DES-family sharing
    full = build
    for pair, enabled, a_entry in ((1, [m for m in ALL if m != "descrypt"], "A_crypt_crypt_bigcrypt_rn"),
                                   (2, [m for m in ALL if m != "bigcrypt"], "A_crypt_crypt_descrypt_rn")):
        b = build.sub("pair%d" % pair, hashes=",".join(enabled))
        ua = renamed_unit(b, "crypt-des.c", "A")
        ub = renamed_unit(full, "crypt-des.c", "B")
        q = Query("c19-des-pair%d" % pair, "des_pair.c", units=["util-xstrcpy.c", "util-base64.c"],
                  models=["libc.c", "des_uf.c", ua, ub],
                  defs=["PAIR=%d" % pair, "A_ENTRY=" + a_entry, "B_ENTRY=B_crypt_crypt_bigcrypt_rn", "MAX_P=12", "MAX_S=15"],
                  unwind=20, loops=[("^harness$", None, 200, False)], timeout=1200)
        q.str_bound = 20
        qs.append(q)
    return qs


def post(tier, seed, build, results):
    return {"coverage": {"configurations_enumerated": [r.query.note for r in results if r.name.startswith("c19-dispatch")]}}
