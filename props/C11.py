"""C11: crypt_gensalt encodes the documented cost for every count."""
from .gensalt import SPECS, cost_query

META = {
    "level": "other",
    "explanation": "CBMC on the real crypt_gensalt_rn + gensalt_<m>_rn with a fully symbolic 64-bit count and symbolic random bytes; the cost field of the generated setting is decoded by an independent decoder in the harness (decimal, 24-bit base-64, yescrypt/scrypt N,r,p digits) and compared with the documented function of count (default on 0, clamps, odd bsdicrypt, randomised windows of sha1crypt/sunmd5, EINVAL outside the logarithmic ranges, 0 only for fixed-cost methods); for sunmd5 the cost crypt *applies* (its 32-bit nrounds arithmetic) is also bounded below.",
    "functions": ["crypt_gensalt_rn", "gensalt_sha_rn", "gensalt_{md5crypt,sha256crypt,sha512crypt,nt,descrypt,bigcrypt,bsdicrypt,bcrypt,bcrypt_a,bcrypt_y,yescrypt,gost_yescrypt,scrypt,sha1crypt,sunmd5}_rn", "yescrypt_encode_params_r", "encode64_uint32", "N2log2"],
    "bounds": {"count": "all 2^64 values", "random bytes": "16 (sha1crypt 20) symbolic bytes", "output_size": "192"},
    "outside": ["bcrypt $2x$ (no gensalt)", "nrbytes other than 16/20 (C12, C13)", "sha1crypt with 2^24 < count < 2^32 (symbolic 64-bit modulo plus decimal printing: no verdict within 20 minutes)"],
    "assumptions": ["decimal printing model (models/libc.c): digits are an uninterpreted function of the value constrained by Horner evaluation"],
    "trusted": [],
    "claim": "For every unsigned long count and every random-byte content the solver shows the generated cost field equals the documented function of count (or EINVAL is returned where documented), and that no accepted count produces a setting cheaper than the method minimum - except the recorded finding F4 (sunmd5 wrap), which is isolated by its own query.",
    "note": "Independent decoder/spec in harness/gensalt_cost.c transcribed from doc/crypt.5 and doc/crypt_gensalt.3; known finding F4 excluded by an assumption naming exactly that class.",
}


def queries(tier, seed, build):
    qs = []
    for name, prefix, spec, extra, nrb, win in SPECS:
        if name == "sunmd5":
            q = cost_query(name, prefix, spec, extra, nrb, win, defs=["KF_F4_EXCLUDE"])
            qs.append(q)
            kf = cost_query(name + "-F4", prefix, spec, extra, nrb, win, defs=["COUNT_MIN=4294000000"])
            kf.known_finding = "F4"
            qs.append(kf)
        elif name == "sha1crypt":
            # the symbolic 32-bit modulo random % (count/4): split the count axis
            ranges = [("small", 0, 4096), ("mid", 4097, 16777216), ("huge", 4294967296, None)]
            # 2^24 < count < 2^32: no verdict within 20 minutes in probes (symbolic 64-bit remainder plus
            # decimal printing); outside the claim in both tiers
            for tag, lo, hi in ranges:
                d = ["COUNT_MIN=%d" % lo] + (["COUNT_MAX=%d" % hi] if hi is not None else [])
                qs.append(cost_query("%s-%s" % (name, tag), prefix, spec, extra, nrb, win, defs=d, timeout=1800))
        else:
            qs.append(cost_query(name, prefix, spec, extra, nrb, win))
    return qs
