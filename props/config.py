"""Build configurations (--enable-hashes selections) and the classifier parameters
the harnesses need for each.  The strength flags and the default order are
transcribed from doc/crypt.5 / doc/crypt_preferred_method.3, *not* read from
hashes.conf, so that an edit of hashes.conf is checked against them."""
from vf.core import Query, Build
from .common import lib_loops

ALL = ["yescrypt", "gost_yescrypt", "scrypt", "bcrypt", "bcrypt_y", "bcrypt_a", "bcrypt_x",
       "sha512crypt", "sha256crypt", "sha1crypt", "sunmd5", "md5crypt", "nt", "bsdicrypt",
       "bigcrypt", "descrypt"]
STRONG = {"yescrypt", "gost_yescrypt", "scrypt", "bcrypt", "bcrypt_y", "bcrypt_a", "sha512crypt"}
DEFAULT_ORDER = [("yescrypt", "$y$"), ("bcrypt", "$2b$"), ("sha512crypt", "$6$")]
PREFIX = {"yescrypt": "$y$", "gost_yescrypt": "$gy$", "scrypt": "$7$", "bcrypt": "$2b$",
          "bcrypt_y": "$2y$", "bcrypt_a": "$2a$", "bcrypt_x": "$2x$", "sha512crypt": "$6$",
          "sha256crypt": "$5$", "sha1crypt": "$sha1", "sunmd5": "$md5", "md5crypt": "$1$",
          "nt": "$3$", "bsdicrypt": "_", "bigcrypt": "", "descrypt": ""}
GROUPS = {
    "strong": [m for m in ALL if m in STRONG],
    "glibc": ["sha512crypt", "sha256crypt", "md5crypt", "descrypt"],
    "freebsd": ["bcrypt", "bcrypt_a", "sha512crypt", "sha256crypt", "md5crypt", "nt", "bsdicrypt", "descrypt"],
    "netbsd": ["bcrypt", "bcrypt_a", "sha1crypt", "md5crypt", "bsdicrypt", "descrypt"],
    "openbsd": ["bcrypt", "bcrypt_a", "md5crypt", "bsdicrypt", "descrypt"],
    "osx": ["bsdicrypt", "descrypt"],
    "owl": ["bcrypt", "bcrypt_y", "bcrypt_a", "bcrypt_x"],
    "solaris": ["bcrypt", "bcrypt_a", "sha512crypt", "sha256crypt", "sunmd5", "md5crypt", "descrypt"],
    "suse": ["bcrypt", "bcrypt_y", "bcrypt_a", "bcrypt_x"],
    "alt": ["yescrypt", "gost_yescrypt", "bcrypt", "bcrypt_y", "bcrypt_a", "bcrypt_x"],
}


def class_defs(enabled):
    en = set(enabled)
    defs = ["EN_%s=%d" % (m, 1 if m in en else 0) for m in ALL]
    for m, p in DEFAULT_ORDER:
        if m in en:
            defs.append('EXPECT_DEFAULT="%s"' % p)
            break
    if en & STRONG:
        defs.append("HAVE_STRONG")
    if en - STRONG:
        defs.append("HAVE_LEGACY")
    return defs


CHECKSALT_UNITS = ["crypt.c", "util-make-failure-token.c"]


def checksalt_query(name, enabled, max_s=8, build=None, timeout=600):
    q = Query(name, "checksalt.c", units=CHECKSALT_UNITS, models=["libc.c"],
              defs=class_defs(enabled) + ["MAX_S=%d" % max_s], unwind=6,
              loops=[("^harness$|^starts$", None, max_s + 2, False)] + lib_loops(max_s + 3),
              timeout=timeout)
    q.loops_optional = True
    q.str_bound = max_s + 3
    if build is not None:
        q.build = build
    return q
