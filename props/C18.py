"""C18: crypt_checksalt / crypt_preferred_method agree with crypt and crypt_gensalt."""
from .config import ALL, checksalt_query
from .api import api_query, SCALE
from vf.core import Query
from .common import GENSALT_UNITS, lib_loops

META = {
    "level": "other",
    "explanation": "CBMC decides, for every byte string up to the bound (all 256 byte values at every position), that the real crypt_checksalt/get_hashfn/check_badsalt_chars agree with an independent classifier transcribed from the manual pages (prefix table, strength classes, two-character DES rule), that the class depends only on tag and character set, that crypt_preferred_method is the documented default and is OK, that a setting crypt hashes is never INVALID (API harness), and that crypt_gensalt_rn(NULL) equals crypt_gensalt_rn(crypt_preferred_method()).",
    "functions": ["crypt_checksalt", "crypt_preferred_method", "get_hashfn", "check_badsalt_chars", "do_crypt", "crypt_gensalt_rn"],
    "bounds": {"quick": {"setting": "every byte string of length 0..8"}, "thorough": {"setting": "every byte string of length 0..24"}},
    "outside": ["strings longer than the bound (the filter loop is uniform in position; tags are at most 5 bytes)", "build configurations other than the configured one (C19)"],
    "assumptions": ["classifier transcribed from doc/crypt_checksalt.3, doc/crypt.5 (harness/checksalt.c)"],
    "trusted": [],
    "claim": "Exhaustive (symbolic) agreement of crypt_checksalt with the documented classification for every string within the length bound, plus the crypt => not INVALID implication and default-prefix agreement; SAT-decided, so every byte value at every position is covered, not a sample.",
    "note": "Independent classifier in harness/checksalt.c is the oracle; bound on string length.",
}
BUILD_ARGS = {"scale": SCALE}


def queries(tier, seed, build):
    ms = 8 if tier == "quick" else 24
    enabled = [m for m in ALL if m in build.hashes.split(",")]
    qs = [checksalt_query("c18-classify", enabled, max_s=ms)]
    qs.append(api_query("EP_RN", 1, 1, "CHECK_RESULT", max_s=8 if tier == "quick" else 12, max_p=2))
    q = Query("c18-default-prefix", "gensalt_default.c", units=GENSALT_UNITS, models=["libc.c"],
              defs=["MAX_RB=20"], unwind=6, loops=[("^harness$", None, 200, False)] + lib_loops(200), timeout=900)
    q.loops_optional = True
    q.str_bound = 200
    q.build = build.sub("full")
    qs.append(q)
    return qs
