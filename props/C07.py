"""C07: hashing is a pure function of its inputs across entry points and call history."""
from .methods import BY_NAME, rel_query
from .api import api_query, api_queries, SCALE

BUILD_ARGS = {"scale": SCALE}
META = {
    "level": "other",
    "explanation": "Two layers. Method layer (non-interference): two runs of the real crypt_<m>_rn on identical (phrase, setting) with independent arbitrary residue in output and scratch, over uninterpreted kernels: same result, same errno - an uninitialised read of scratch/output shows up as a difference. API layer: the real crypt.c/crypt-static.c with contract stubs from an arbitrary prior object: crypt, crypt_r, crypt_rn each return exactly what the (pure) method produced, hand the method the caller's strings, the 384-byte output and an aligned scratch inside internal for object placements at byte offsets 0, 1, 8, 15; the object's prior contents and the static areas do not influence the result.",
    "functions": ["crypt", "crypt_r", "crypt_rn", "do_crypt", "get_internal", "crypt_{descrypt,bigcrypt,bsdicrypt,nt}_rn", "crypt_md5crypt_rn (concrete lengths)", "crypt_sha1crypt_rn (thorough, concrete lengths)"],
    "bounds": {"phrase": "<= 4..6 bytes", "setting": "<= 8 bytes (API), per-method tail (methods)", "placements": "offsets 0,1,8,15"},
    "outside": ["sha256crypt/sha512crypt/yescrypt family/bcrypt method-level purity", "interleavings with crypt_gensalt/setkey/encrypt: their static areas are separate objects (C08 shows crypt does not touch or read them)"],
    "assumptions": ["contract stubs are pure functions of (phrase, setting)", "scaled data object", "smaller scratch objects at method level"],
    "trusted": [],
    "claim": "One step from an arbitrary object state (which subsumes every call history) gives the same answer through every entry point, and each encoded method's answer is independent of residue in library-owned memory; SAT-decided within the bounds.",
    "note": "History quantifier is discharged by arbitrary pre-state, not by enumerating sequences.",
}


def queries(tier, seed, build):
    full = build.sub("full")
    qs = []
    for n, mp in (("descrypt", 10), ("bigcrypt", 12), ("bsdicrypt", 10), ("nt", 6)):
        q = rel_query(BY_NAME[n], "c07-pure-" + n, "REL_PURE", max_p=mp)
        q.build = full
        qs.append(q)
    # stretching methods: concrete lengths per query, contents symbolic
    grid = [("md5crypt", 2, 9)] if tier == "quick" else \
        [(n, pl, sl) for n in ("md5crypt", "sha1crypt") for pl, sl in ((0, 1), (2, 4), (2, 9), (3, 12))
         if not (n == "sha1crypt" and (sl < 3 or sl > 9))]      # a sha1crypt tail needs at least "N$s"
    for n, pl, sl in grid:
        q = rel_query(BY_NAME[n], "c07-pure-%s-p%d-s%d" % (n, pl, sl), "REL_PURE", max_p=max(pl, 1), max_s=max(sl, 1),
                      extra_defs=["FIX_PLEN=%d" % pl, "FIX_SLEN=%d" % sl], timeout=1500 if tier == "quick" else 3000)
        q.build = full
        qs.append(q)
    qs += api_queries(["CHECK_RESULT", "CHECK_PTRS"], all_kinds=False)
    for k in (1, 8, 15):
        q = api_query("EP_R", 1, 1, "CHECK_PTRS", extra_defs=["PLACE_K=%d" % k, "CHECK_RESULT"])
        q.name += "-k%d" % k
        qs.append(q)
    return qs
