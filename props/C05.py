"""C05: failures are fail-closed."""
from .api import api_queries, SCALE
from .methods import METHODS, method_query

BUILD_ARGS = {"scale": SCALE}
META = {
    "level": "other",
    "explanation": "Two layers, both decided by CBMC over all inputs within the bounds. API layer: the real crypt.c (crypt_rn, crypt_r, crypt via crypt-static.c, do_crypt, check_badsalt_chars, get_hashfn, make_failure_token) with the 16 methods replaced by contract stubs, one call from an arbitrary prior output field; phrase in {NULL, symbolic <= MAX_P, 512-byte}, setting in {NULL, symbolic over all 256 byte values <= MAX_S}. Method layer: each real crypt_<m>_rn under havoc digest models: on failure errno is set and the 384 output bytes (holding the token) are bit-identical.",
    "functions": ["crypt_rn", "crypt_r", "crypt", "do_crypt", "check_badsalt_chars", "get_hashfn", "make_failure_token", "crypt_checksalt",
                  "crypt_{descrypt,bigcrypt,bsdicrypt,sunmd5,scrypt}_rn, crypt_bcrypt_rn wrapper (quick); + rounds= spellings of sha256/512crypt, sha1crypt, yescrypt, other bcrypt variants (thorough)"],
    "bounds": {"quick": {"setting": "<= 8 bytes, all byte values (API) / per-method tail bound (methods)", "phrase": "NULL, <= 4 bytes, 512 bytes"},
               "thorough": {"setting": "<= 14 bytes, all byte values (API)", "phrase": "NULL, <= 8 bytes, 512 bytes"}},
    "outside": ["settings longer than the bound at API level (the filter loops are uniform in the position)",
                "crypt_rn sizes below sizeof(struct crypt_data): harness api_small (C04)",
                "ENABLE_FAILURE_TOKENS=0 builds"],
    "assumptions": ["method contract (models/method_stub.c), each side proved: methods by harness/crypt_method.c",
                    "scaled-down struct crypt_data (internal 288 bytes, ALG_SPECIFIC_SIZE 256) at API level; crypt.c is size-generic (sizeof)",
                    "prior contents: the first 16 bytes of output arbitrary, rest zero (a stale hash differs from the token in its first bytes)"],
    "trusted": [],
    "claim": "Within the bounds, every failing call returns NULL (crypt_rn) or the token (crypt_r/crypt), sets errno to EINVAL/ERANGE/ENOMEM as documented, leaves exactly '*0' or '*1' (never the setting, never a previous result) and the token is rejected by crypt_checksalt; failing methods leave the output untouched. Decided by SAT over all byte values and positions, from an arbitrary prior output.",
    "note": "Contract-stub decomposition between do_crypt and the methods; scaled data object; bounds as listed in evidence.",
}


def queries(tier, seed, build):
    ms, mp = (8, 4) if tier == "quick" else (14, 8)
    qs = api_queries(["CHECK_RESULT"], max_s=ms, max_p=mp, timeout=900 if tier == "quick" else 3000)
    # method layer: failure => errno set and the 384 output bytes untouched; malformed => refused
    full = build.sub("full")
    names = ["descrypt", "bigcrypt", "bsdicrypt", "sunmd5", "bcrypt", "scrypt"]
    if tier == "thorough":
        names += ["sunmd5-comma", "sunmd5-rounds", "sha256crypt-rounds", "sha512crypt-rounds", "yescrypt", "bcrypt_a", "bcrypt_x", "bcrypt_y"]
    from .methods import BY_NAME
    for n in names:
        q = method_query(BY_NAME[n], "c05-" + n, timeout=900 if tier == "quick" else 3000)
        q.build = full
        qs.append(q)
    return qs
