"""C06: successful hashes are well-formed passwd(5)-safe strings of the method's shape."""
from .methods import bf_core_query, BY_NAME, method_query
from .C04 import QUICK_METHODS

META = {
    "level": "other",
    "explanation": "Each real crypt_<m>_rn under havoc digest models (every digest value is explored by the formatting code): a successful output is NUL-terminated inside 384 bytes, consists only of passwd(5)-safe printable ASCII, begins with the setting's method prefix, ends in exactly the method's number of digest characters from the method's alphabet (preceded by '$' where the format has one), passes the real check_badsalt_chars and selects the same hash_algorithms[] entry through the real get_hashfn.",
    "functions": ["crypt_{md5crypt,sha256crypt,sha512crypt,sunmd5,nt,bigcrypt,descrypt,bsdicrypt}_rn", "check_badsalt_chars", "get_hashfn", "b64_from_24bit macros", "to64", "write_itoa64_*"],
    "bounds": {"setting tail": "per method 8..20 symbolic bytes after the fixed prefix (rounds= spellings as separate queries)", "phrase": "<= 16", "digest": "all values"},
    "outside": ["bcrypt beyond its wrappers (BF_crypt is a contract stub here: 29 setting characters + 31 alphabet characters), yescrypt, scrypt, gost-yescrypt output shape", "salts longer than the bound"],
    "assumptions": ["setting passed to a method contains no byte rejected by check_badsalt_chars (do_crypt establishes it: C05)"],
    "trusted": [],
    "claim": "For all settings inside the bounds and all digest values the emitted string has the documented shape and is itself accepted as a setting selecting the same method; SAT-decided.",
    "note": "Shape recogniser per method in props/methods.py (digest length, alphabet, separator) transcribed from doc/crypt.5.",
}


def queries(tier, seed, build):
    names = ["md5crypt", "nt", "bigcrypt", "descrypt", "bsdicrypt", "sunmd5", "bcrypt", "bcrypt_x", "yescrypt", "scrypt"]
    if tier == "thorough":
        names += ["sunmd5-comma", "sunmd5-rounds", "sunmd5-comma-rounds", "sha256crypt", "sha256crypt-rounds",
                  "sha512crypt", "sha512crypt-rounds"]
    qs = [method_query(BY_NAME[n], "c06-" + n, timeout=900 if tier == "quick" else 3000) for n in names]
    qs.append(bf_core_query('c06-bcrypt-core'))
    return qs
