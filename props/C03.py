"""C03: a different passphrase or salt never reproduces the hash (no false accept)."""
from vf.core import Query
from .methods import BY_NAME
from .common import lib_loops, cstr

META = {
    "level": "other",
    "explanation": "'Never yields H' cannot be a theorem about DES or MD4; what an edit can break is that every significant input byte reaches the kernel. The property is decided MODULO THE IDEAL-KERNEL AXIOM: the DES key schedule and block function are uninterpreted functions assumed injective (the axiom is instantiated on every pair of applications occurring in the two runs, which is complete for a quantifier-free goal). Two runs of the real crypt_<m>_rn: (a) same setting, phrases that differ inside the documented significant window => different hashes, and phrases equal on the window => equal hashes (so the harness and crypt(5) agree on the window: 8 bytes / 7 bits descrypt, 7 bits everywhere for bsdicrypt and bigcrypt); (b) same phrase, settings that differ in a salt or cost character => different hash parts.",
    "functions": ["crypt_descrypt_rn", "crypt_bigcrypt_rn", "crypt_bsdicrypt_rn", "ascii_to_bin", "des_gen_hash", "crypt_nt_rn (phrase 4)"],
    "bounds": {"phrase": "<= 10 (descrypt), 12 (bigcrypt: two segments), 8 (bsdicrypt: one block - its Merkle-Damgard folding of longer phrases admits constructed collisions even for an ideal cipher, so longer phrases are outside what can be claimed)", "setting": "valid salt/count characters"},
    "outside": ["md5crypt (the two-run ideal-hash query takes 15 minutes and its log of applications overflows: no sound verdict), sha*crypt, sunmd5, sha1crypt, bcrypt, yescrypt family; NT only at phrase length 4", "collisions of the real primitives (that is the axiom)", "phrases beyond the bound"],
    "assumptions": ["ideal cipher: injective uninterpreted key schedule (on the 56 key bits) and block function"],
    "trusted": [],
    "claim": "Within the bounds and modulo the stated axiom, every significant phrase byte, every salt character and every cost character of the DES-based methods influences the hash, and only the documented insignificant bits do not. Known finding F7 (bsdicrypt count 0 is applied as 1) is isolated by its own query.",
    "note": "Decided modulo injective uninterpreted kernels; DES family only.",
}


def nofa(name, mname, mode, max_p, max_s, min_s, sig_bytes, field_len, hash_from, out_max, extra=(), timeout=1500):
    m = BY_NAME[mname]
    defs = ["METHOD_FN=" + m.fn, "PREFIX_STR=" + cstr(m.prefix), "MAX_P=%d" % max_p, "MAX_S=%d" % max_s, "MIN_S=%d" % min_s,
            mode, "SIG_BYTES=%d" % sig_bytes, "SIG_MASK=0x7f", "FIELD_LEN=%d" % field_len, "HASH_FROM=%d" % hash_from,
            "OUT_MAX=%d" % out_max, "UF_LOG", "M_DES", "DLOG=8"] + list(extra)
    q = Query(name, "crypt_nofa.c", units=["util-xstrcpy.c", "util-base64.c"] + m.units, models=["libc.c", "des_uf.c"],
              defs=defs, unwind=20, loops=[("^harness$", None, max(out_max, 50) + 2, False)] + lib_loops(out_max + 2), timeout=timeout)
    q.loops_optional = True
    q.str_bound = out_max + 2
    return q


def queries(tier, seed, build):
    qs = [
        nofa("c03-descrypt-phrase", "descrypt", "NOFA_PHRASE", 10, 2, 2, 8, 2, 2, 14),
        nofa("c03-descrypt-salt", "descrypt", "NOFA_SETTING", 8, 2, 2, 8, 2, 2, 14),
        nofa("c03-bsdicrypt-phrase", "bsdicrypt", "NOFA_PHRASE", 8, 8, 8, 8, 8, 9, 21),
        nofa("c03-bsdicrypt-setting", "bsdicrypt", "NOFA_SETTING", 6, 8, 8, 10, 8, 9, 21, extra=["KF_F7_EXCLUDE"]),
        nofa("c03-bigcrypt-phrase", "bigcrypt", "NOFA_PHRASE", 12, 14, 14, 12, 2, 2, 26),
    ]
    # digest-based methods, modulo the ideal-hash axiom, lengths fixed per query
    for n, pl, sl, hf, om in (("nt", 4, 0, 4, 40),):
        m = BY_NAME[n]
        for mode in (("NOFA_PHRASE",) if n == "nt" else ("NOFA_PHRASE", "NOFA_SETTING")):
            defs = ["METHOD_FN=" + m.fn, "PREFIX_STR=" + cstr(m.prefix), "MAX_P=%d" % pl, "MAX_S=%d" % max(sl, 1), "MIN_S=0", mode,
                    "SIG_BYTES=%d" % pl, "SIG_MASK=0xff", "FIELD_LEN=%d" % sl, "HASH_FROM=%d" % hf, "OUT_MAX=%d" % om,
                    "UF_LOG", "UF_LOG_MAX=40", "NOFA_DIGEST", "FIX_PLEN=%d" % pl, "FIX_SLEN=%d" % sl, "SCR_SIZE=%d" % (1280 if n == "nt" else 384)] + list(m.mdefs)
            loops = [("^harness$", None, 60, False), ("^absorb$", None, 10, False), ("^emit$", None, 10, False)]
            for freg, sreg in m.caps:
                loops.append((freg, sreg, 2, True))
            q = Query("c03-%s-%s" % (n, mode[5:].lower()), "crypt_nofa.c", units=["util-xstrcpy.c", "util-base64.c"] + m.units,
                      models=["libc.c", "digest_uf.c"], defs=defs, unwind=20, loops=loops + m.extra_loops + lib_loops(om + 2), timeout=1500)
            q.loops_optional = True
            q.str_bound = om + 2
            qs.append(q)
    kf = nofa("c03-bsdicrypt-setting-F7", "bsdicrypt", "NOFA_SETTING", 2, 8, 8, 10, 8, 9, 21)
    kf.known_finding = "F7"
    qs.append(kf)
    return qs
