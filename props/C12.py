"""C12: generated salts carry the supplied randomness; auto-entropy comes from the OS."""
from vf.core import Query
from .gensalt import SPECS, cost_query
from .common import GENSALT_UNITS, lib_loops, cstr, PREFIXES

# standard salt size in characters (doc/crypt.5): 12 bits DES (2), 24 bsdicrypt (4), 48 md5crypt/sunmd5 (8),
# 72 sha1crypt (12), 96 sha256/512crypt (16), 128 bcrypt (22), 128+ scrypt/yescrypt (22)
STD = {"sha512crypt": 16, "sha256crypt": 16, "md5crypt": 8, "descrypt": 2, "bsdicrypt": 4, "bcrypt": 22,
       "bcrypt_a": 22, "bcrypt_y": 22, "yescrypt": 22, "gost_yescrypt": 22, "scrypt": 22, "sha1crypt": 12, "sunmd5": 8}
# minimum total length of a successful setting for any accepted nrbytes (prefix + minimal salt)
MINLEN = {"sha512crypt": 7, "sha256crypt": 7, "md5crypt": 7, "descrypt": 2, "bsdicrypt": 9, "bcrypt": 29,
          "bcrypt_a": 29, "bcrypt_y": 29, "yescrypt": 29, "gost_yescrypt": 30, "scrypt": 36, "sha1crypt": 21,
          "sunmd5": 21, "nt": 3, "default": 29}

META = {
    "level": "other",
    "explanation": "CBMC on the real crypt_gensalt_rn + gensalt_<m>_rn: (1) injectivity as a two-run query - same prefix/count, two symbolic random buffers that differ inside the documented consumed window => the two settings differ; (2) with 16+ bytes and a 192-byte buffer the trailing salt run has at least the standard size; (3) with symbolic nrbytes 0..24 and symbolic output_size every success carries at least the minimal salt (a too-short input is EINVAL, never a salt-less setting); (4) rbytes == NULL: the arc4random_buf model is asked for exactly the table's nrbytes into a buffer at least that large, and the result is the function of those bytes.",
    "functions": ["crypt_gensalt_rn", "get_random_bytes", "gensalt_sha_rn", "gensalt_*_rn", "BF_encode", "encode64", "to64", "write_itoa64_4"],
    "bounds": {"random bytes": "16 (sha1crypt 20) symbolic for (1),(2); nrbytes 0..24 symbolic for (3)", "count": "symbolic (fixed-cost methods: 0)"},
    "outside": ["quality of the OS entropy source; the non-compiled fallback chain of util-get-random-bytes.c (this build has arc4random_buf)", "nrbytes > 24 in (3)"],
    "assumptions": ["arc4random_buf fills the buffer with arbitrary bytes"],
    "trusted": [],
    "claim": "SAT-decided injectivity of every salt encoder on its consumed window (every single-bit change is covered because the two buffers are arbitrary and different), minimal and standard salt sizes, and EINVAL for too-short input, for every count and byte content inside the bounds.",
    "note": "Consumed windows and standard sizes transcribed from doc/crypt.5 (props/C12.py, props/gensalt.py).",
}


def queries(tier, seed, build):
    qs = []
    for name, prefix, spec, extra, nrb, win in SPECS:
        if name == "nt":
            continue
        defs = ["STD_SALT_CHARS=%d" % STD[name]]
        if spec == "M_fixed":
            defs.append("COUNT_MAX=0")
        if name == "sha1crypt":
            defs += ["COUNT_MAX=4096"]      # the window does not depend on count; keeps the modulo cheap
        if name == "sunmd5":
            defs += ["KF_F4_EXCLUDE"]
        qs.append(cost_query(name, prefix, spec, extra, nrb, win, two_rb=True, defs=defs, tag="c12-inj",
                             timeout=1500))
    # (3) minimal salt for every accepted nrbytes / output_size: the C13 harness with MIN_OUT_LEN
    from .C13 import queries as c13q
    for q in c13q(tier, seed, build):
        if not q.name.endswith("-end") and not q.name.endswith("-base"):
            continue
        nm = q.name[len("c13-"):].rsplit("-", 1)[0]
        if nm in ("unknown", "bcrypt_x"):
            continue
        if tier == "quick" and nm in ("yescrypt", "gost_yescrypt", "scrypt", "default", "sha256crypt", "bcrypt_a", "bcrypt_y"):
            continue       # thorough tier (same code paths as sha512crypt / bcrypt; yescrypt family is slow)
        q.name = "c12-min-" + q.name[len("c13-"):]
        q.defs = list(q.defs) + ["MIN_OUT_LEN=%d" % MINLEN.get(nm, 3)]
        qs.append(q)
    return qs
