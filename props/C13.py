"""C13: crypt_gensalt_rn honours output_size and reports errors without aborting."""
from vf.core import Query
from .common import GENSALT_UNITS, PREFIXES, cstr, lib_loops

META = {
    "level": "other",
    "explanation": "Bounded symbolic model checking (CBMC/SAT) of the real crypt_gensalt_rn and all gensalt_*_rn: output_size, count, nrbytes and the random bytes are symbolic; the caller's buffer is placed exact-fit at the end of an object so any access at or beyond output_size is an out-of-object access; libxcrypt's assert()/strcpy_or_abort are modelled as reachable violations.",
    "functions": ["crypt_gensalt_rn", "get_hashfn", "make_failure_token", "get_random_bytes",
                  "gensalt_sha_rn", "gensalt_{md5crypt,sha256crypt,sha512crypt,sunmd5,sha1crypt,nt,descrypt,bigcrypt,bsdicrypt,bcrypt*,scrypt,yescrypt,gost_yescrypt}_rn",
                  "yescrypt_encode_params_r", "encode64", "encode64_uint32", "BF_encode", "strcpy_or_abort"],
    "bounds": {
        "quick": {"output_size": "-2..160 symbolic", "nrbytes": "0..24 symbolic (rbytes NULL also)", "count": "all 64-bit values", "two-run monotonicity": "sizes s<s' <= 224"},
        "thorough": {"output_size": "-2..256 symbolic", "nrbytes": "0..70 symbolic (rbytes NULL also)", "count": "all 64-bit values", "two-run monotonicity": "sizes s<s' <= 320"},
    },
    "outside": ["output_size > 256 (every size test in the code compares against constants <= 192)",
                "nrbytes beyond the bound (methods clamp at 64 or ignore the excess)",
                "negative nrbytes with non-NULL rbytes (outside the documented precondition)"],
    "assumptions": ["arc4random_buf returns arbitrary bytes and cannot fail (as documented)",
                    "vsnprintf model (models/libc.c) implements %s %.*s %c %u %lu %zu as C11"],
    "trusted": [],
    "claim": "For every output_size in the stated range, every count, every nrbytes within the bound and every byte content, the SAT solver shows that the real crypt_gensalt_rn never writes at or beyond output_size, never reaches assert()/abort, returns the documented token/errno on failure, and that success is monotone in output_size with the smaller result a leading part of the larger; bounded model checking is the right level because the property is about specific sizes and counts that only an exhaustive decision over the integers finds.",
    "note": "Bounds: output_size <= 160 (quick) / 256 (thorough), nrbytes <= 24 / 70; models/libc.c for vsnprintf/strspn/strcspn/strtoul/arc4random_buf; CBMC's C semantics.",
}


LIB_LOOPS = [("gensalt_sha_rn", r"ceiling", 12, False)]
LONG = ("yescrypt", "gost_yescrypt", "default", "scrypt", "sunmd5")


def queries(tier, seed, build):
    qs = []
    small = 48
    max_osize = 160 if tier == "quick" else 256
    max_rb = 24 if tier == "quick" else 70
    to = 900 if tier == "quick" else 3000
    for name, prefix, taglen, nrb in PREFIXES + [("default", None, 0, 16), ("unknown", "$zz$", 0, 0)]:
        for place, lo, hi in (("end", -2, small), ("base", small + 1, max_osize), ("mono", 0, max_osize)):
            defs = ["MIN_OSIZE=%d" % lo, "MAX_OSIZE=%d" % hi,
                    "MAX_RB=%d" % (max_rb if place != "mono" else 20),
                    "PREFIX_TAGLEN=%d" % taglen, "EXPECT_ALWAYS_192",
                    "PLACE_" + ("END" if place == "end" else "BASE")]
            if place == "mono":
                defs.append("TWO_RUN")
            defs.append("PREFIX_NULL" if prefix is None else "PREFIX_STR=" + cstr(prefix))
            if nrb:
                defs.append("EXPECT_NRB=%d" % nrb)   # hashes.conf column 3, transcribed in props/common.py
            if name == "unknown":
                defs.append("EXPECT_NO_SUCCESS")
            if place == "end" and name in LONG:
                defs.append("EXPECT_NO_SUCCESS")      # these need more than 48 bytes
                if name != "sunmd5":
                    defs.append("EXPECT_NO_EINVAL")   # ... and say ERANGE before looking at count
            if name in ("descrypt",) and place != "base":
                defs.append("EXPECT_NO_ERANGE")       # 3 bytes always suffice
            if name == "bcrypt_x":
                defs += ["EXPECT_NO_SUCCESS", "EXPECT_NO_ERANGE"]   # no gensalt for $2x$: always EINVAL
            if place == "base" and (name not in ("yescrypt", "gost_yescrypt", "default", "scrypt", "sha1crypt")
                                    or (max_rb <= 24 and name in ("scrypt", "sha1crypt"))):
                defs.append("EXPECT_NO_ERANGE")       # 49 bytes always suffice
            q = Query("c13-%s-%s" % (name, place), "gensalt_c13.c", units=GENSALT_UNITS,
                      models=["libc.c"], defs=defs, unwind=6,
                      loops=[("^harness$", None, hi + 64 + 2, False)] + lib_loops(hi + 70),
                      timeout=to)
            q.loops_optional = True
            q.str_bound = hi + 70
            q.replay_kind = "gensalt"
            q.replay_prefix = prefix
            if name == "sha1crypt" and place == "mono":
                # the two-run query would have to prove two symbolic 64-bit remainders equal:
                # fix the count (default, and one seeded value); other counts are in the
                # one-run queries above
                for tag, c in (("c0", 0), ("cs", 1000 + seed % 9000)):
                    import copy
                    q2 = copy.copy(q)
                    q2.name = q.name + "-" + tag
                    q2.defs = list(q.defs) + ["COUNT_FIXED=%d" % c]
                    qs.append(q2)
                continue
            qs.append(q)
    return qs
