"""C16: digest/MAC/KDF primitives are the standard functions for all lengths and chunkings."""
from vf.core import Query

META = {
    "level": "other",
    "explanation": "Relative to the compression function (replaced by a stub that logs the blocks it is given), the real MD4/MD5 Init/Update/Final and SHA-1/SHA-256/SHA-512 Update/Final are verified by induction over update calls: from an ARBITRARY context satisfying the representation invariant (arbitrary 61-bit byte counter = any message length, arbitrary tail) and arbitrary input of symbolic length <= 130 at every alignment 0..7, Update compresses exactly the whole blocks of tail||data in order, keeps the remainder, advances the counter with carry; Final emits the RFC padding (0x80, zeros, little-endian bit length, one or two blocks); Init gives the RFC initial state. This covers every message length and every split. HMAC-SHA1 (real alg-hmac-sha1.c) is compared with an RFC 2104 reference over an ideal-hash model of SHA-1 for key lengths around the block size.",
    "functions": ["MD4_Init", "MD4_Update", "MD4_Final", "MD5_Init", "MD5_Update", "MD5_Final", "SHA256_Update", "SHA256_Final", "SHA256_Pad", "SHA512_Update", "SHA512_Final", "SHA512_Pad", "sha1_process_bytes", "sha1_finish_ctx", "HMAC_SHA256_Init", "HMAC_SHA256_Update", "HMAC_SHA256_Final", "HMAC_SHA256_Buf", "hmac_sha1_process_data"],
    "bounds": {"input per Update": "0..130 bytes symbolic (quick) / 0..200 (thorough)", "tail length": "case split, enumerated: 0,1,55,56,63 + 2 seeded values (quick), all 64 (thorough)", "counter": "all values", "alignment": "0,3 (MD4/MD5 quick and all thorough), 0 (SHA quick)", "HMAC key": "lengths 0, 20, 63, 64, 65, 80"},
    "outside": ["the compression functions themselves (MD4/MD5/SHA-1/SHA-2/Streebog round wiring): a miter of SHA256_Transform against FIPS 180-4 timed out on all four back ends even with 32 symbolic bits (DESIGN.md C02 layer 3); they rest on the repo's KATs", "Streebog Update/Final framing, PBKDF2, sha1_init_ctx constants, SHA256_Init/SHA512_Init constants (same inductive scheme; not built)", "Update calls with more than 130 bytes (the bulk loop is covered for 0, 1, 2 iterations)"],
    "assumptions": ["the compression stub may change the state arbitrarily (sound: the assertions do not depend on state values)"],
    "trusted": [],
    "claim": "For MD4 and MD5: buffering, bulk path, padding and length encoding are correct for every message length and every chunking (inductive step decided by SAT from an arbitrary invariant-satisfying context), relative to the compression function; HMAC-SHA1 key handling follows RFC 2104 at the block-size boundary.",
    "note": "Relative to the compression function; induction over calls instead of enumerating lengths.",
}


def md_queries(kind, maxl, timeout, useds, aligns):
    unit = ("alg-%s.c" % kind, ["__CPROVER_file_local_alg_%s_c_body" % kind], {"export_static": True})
    T = "T_" + kind.upper()
    qs = []
    jobs = [("init", ["Q_INIT"], 4)]
    for u in useds:
        jobs.append(("final-u%d" % u, ["Q_FINAL", "USED=%d" % u], 70))
        for a in aligns:
            jobs.append(("step-u%d-a%d" % (u, a), ["Q_STEP", "USED=%d" % u, "ALIGN=%d" % a], maxl + 10))
    for qn, d, lp in jobs:
        q = Query("c16-%s-%s" % (kind, qn), "md_step.c", units=[unit], models=["libc.c", "block_log.c"],
                  defs=[T, "MAXL=%d" % maxl] + d, unwind=6,
                  loops=[("^harness$|^logblk$", None, max(lp, 66), False), ("_body$", None, 6, False)], timeout=timeout)
        q.loops_optional = True
        qs.append(q)
    return qs


def sha2_queries(kind, maxl, timeout, useds, aligns):
    blk = 64 if kind == "sha256" else 128
    fn = "SHA256_Transform" if kind == "sha256" else "SHA512_Transform"
    unit = ("alg-%s.c" % kind, ["__CPROVER_file_local_alg_%s_c_%s" % (kind, fn)], {"export_static": True})
    T = "T_" + kind.upper()
    qs = []
    for u in useds:
        jobs = [("final-u%d" % u, ["Q_FINAL", "USED=%d" % u, "ALIGN=0"])]
        for a in aligns:
            jobs.append(("step-u%d-a%d" % (u, a), ["Q_STEP", "USED=%d" % u, "ALIGN=%d" % a]))
        for qn, d in jobs:
            q = Query("c16-%s-%s" % (kind, qn), "sha2_step.c", units=[unit], models=["libc.c", "block_log.c"],
                      defs=[T, "MAXL=%d" % maxl] + d, unwind=6,
                      loops=[("^harness$", None, maxl + 10, False), ("Transform$", None, 130, False),
                             ("SHA(256|512)_Update$", None, 4, False), ("_vect$|^be64enc|^be32enc|^cpu_to_be", None, 10, False)], timeout=timeout)
            q.loops_optional = True
            qs.append(q)
    return qs


def sha1_queries(maxl, timeout, useds, aligns):
    unit = ("alg-sha1.c", ["__CPROVER_file_local_alg_sha1_c_sha1_do_transform"], {"export_static": True})
    qs = []
    for u in useds:
        jobs = []
        for ctag, c0 in (("lo", "0x00001200u"), ("hi", "0xfffffe00u")):
            jobs.append(("final-u%d-%s" % (u, ctag), ["Q_FINAL", "USED=%d" % u, "ALIGN=0", "COUNT0HI=" + c0]))
            for a in aligns:
                jobs.append(("step-u%d-a%d-%s" % (u, a, ctag), ["Q_STEP", "USED=%d" % u, "ALIGN=%d" % a, "COUNT0HI=" + c0]))
        for qn, d in jobs:
            q = Query("c16-sha1-%s" % qn, "sha1_step.c", units=[unit], models=["libc.c", "block_log.c"],
                      defs=["T_SHA1L", "MAXL=%d" % maxl] + d, unwind=6,
                      loops=[("^harness$|^logblk$", None, max(maxl + 10, 70), False), ("sha1_finish_ctx$", None, 70, False),
                             ("sha1_process_bytes$", None, 5, False)], flags=["--object-bits", "12"], timeout=timeout)
            q.loops_optional = True
            qs.append(q)
    return qs


def queries(tier, seed, build):
    import random
    rnd = random.Random(seed)
    if tier == "quick":
        useds = sorted(set([0, 1, 55, 56, 63] + rnd.sample(range(2, 55), 2)))
        aligns = [0, 3]
        maxl = 130
    else:
        useds = list(range(64))
        aligns = [0, 3]
        maxl = 200
    to = 900 if tier == "quick" else 3000
    qs = md_queries("md4", maxl, to, useds, aligns) + md_queries("md5", maxl, to, useds, aligns)
    u256 = [0, 55, 56, 63] + ([rnd.randrange(1, 55)] if tier == "quick" else list(range(1, 55)) + list(range(57, 63)))
    u512 = [0, 111, 112, 127] + ([rnd.randrange(1, 111)] if tier == "quick" else list(range(1, 111)) + list(range(113, 127)))
    qs += sha2_queries("sha256", 130 if tier == "quick" else 200, to, sorted(set(u256)), [0] if tier == "quick" else aligns)
    qs += sha1_queries(130 if tier == "quick" else 200, to, sorted(set(u256)), [0] if tier == "quick" else aligns)
    qs += sha2_queries("sha512", 260 if tier == "quick" else 300, to, sorted(set(u512)), [0] if tier == "quick" else aligns)
    for kl in (0, 20, 63, 64, 65, 80):
        q = Query("c16-hmac-sha1-k%d" % kl, "hmac_sha1_ref.c", units=["alg-hmac-sha1.c"], models=["libc.c", "digest_uf.c"],
                  defs=["M_SHA1", "KLEN=%d" % kl, "TLEN=5"], unwind=10,
                  loops=[("^harness$|^ref_hmac$|hmac_sha1_process_data", None, 90, False), ("^absorb$", None, 10, False), ("^emit$", None, 10, False)],
                  timeout=900)
        q.loops_optional = True
        qs.append(q)
    unit256 = ("alg-sha256.c", ["_crypt_SHA256_Init", "__CPROVER_file_local_alg_sha256_c__SHA256_Update",
                                "__CPROVER_file_local_alg_sha256_c__SHA256_Final"], {"export_static": True})
    for kl in (0, 32, 63, 64, 65, 100):
        q = Query("c16-hmac-sha256-k%d" % kl, "hmac_sha256_ref.c", units=[unit256], models=["libc.c", "digest_uf.c"],
                  defs=["M_SHA256_STATICS", "KLEN=%d" % kl, "TLEN=5"], unwind=10,
                  loops=[("^harness$|^ref_hmac$|HMAC_SHA256_Init$", None, 220, False), ("^absorb$", None, 10, False), ("^emit$", None, 10, False)],
                  timeout=900)
        q.loops_optional = True
        qs.append(q)
    return qs
