"""Query builders for gensalt_cost.c (C10/C11/C12)."""
from vf.core import Query
from .common import GENSALT_UNITS, lib_loops, cstr

# name, prefix, spec block, extra defs, NRB, consumed window [lo,hi) of the random bytes
SPECS = [
    ("sha512crypt", "$6$", "M_sha512crypt", [], 16, (0, 12)),
    ("sha256crypt", "$5$", "M_sha256crypt", [], 16, (0, 12)),
    ("md5crypt", "$1$", "M_fixed", [], 16, (0, 6)),
    ("nt", "$3$", "M_fixed", ["NO_SALT"], 16, None),
    ("descrypt", "", "M_fixed", ["WIN_MASK6"], 16, (0, 2)),
    ("bsdicrypt", "_", "M_bsdicrypt", [], 16, (0, 3)),
    ("bcrypt", "$2b$", "M_bcrypt", [], 16, (0, 16)),
    ("bcrypt_a", "$2a$", "M_bcrypt", [], 16, (0, 16)),
    ("bcrypt_y", "$2y$", "M_bcrypt", [], 16, (0, 16)),
    ("yescrypt", "$y$", "M_yescrypt", ["YPRE=3"], 16, (0, 16)),
    ("gost_yescrypt", "$gy$", "M_yescrypt", ["YPRE=4"], 16, (0, 16)),
    ("scrypt", "$7$", "M_scrypt", [], 16, (0, 16)),
    ("sha1crypt", "$sha1", "M_sha1crypt", [], 20, (4, 19)),
    ("sunmd5", "$md5", "M_sunmd5", [], 16, (2, 8)),
]


def cost_query(name, prefix, spec, extra, nrb, win, two_rb=False, defs=(), timeout=900, tag="c11"):
    d = ["PREFIX_STR=" + cstr(prefix), spec, "NRB=%d" % nrb] + list(extra) + list(defs)
    if two_rb and win:
        d += ["TWO_RB", "WIN_LO=%d" % win[0], "WIN_HI=%d" % win[1]]
    q = Query("%s-%s" % (tag, name), "gensalt_cost.c", units=GENSALT_UNITS, models=["libc.c"], defs=d,
              unwind=6, loops=[("^harness$|^dec$|^pre$", None, 200, False)] + lib_loops(200), timeout=timeout)
    q.loops_optional = True
    q.str_bound = 200
    q.replay_kind = "gensalt"
    q.replay_prefix = prefix
    return q
