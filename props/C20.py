"""C20: binary interface stays compatible with released libcrypt.so.1."""
from vf.core import Query
from .api import API_UNITS, SCALE
from .common import lib_loops

META = {
    "level": "other",
    "explanation": "What of the binary interface has C semantics is decided through the goto-cc/CBMC pipeline on the headers regenerated from /repo/lib/crypt.h.in: sizeof(struct crypt_data), the six field offsets, the public size and status constants, against a frozen copy of the released values (abi/released.h); and the compatibility entry points xcrypt, fcrypt, xcrypt_r (strong aliases, compiled with -DPIC as for the shared object) return what crypt/crypt_r return on shared symbolic settings. setkey/encrypt(_r) are covered by C17.",
    "functions": ["struct crypt_data (crypt.h.in via gen-crypt-h)", "crypt", "xcrypt", "fcrypt", "crypt_r", "xcrypt_r", "strong_alias/SYMVER macros (crypt-port.h)"],
    "bounds": {"setting": "<= 6 symbolic bytes for the alias agreement"},
    "outside": ["which (symbol, version) pairs the shared object exports: ELF linker metadata generated from libcrypt.map.in / libcrypt.minver by the link editor - there is no C semantics to execute symbolically (seed C20-m2, a %chain reordering in libcrypt.map.in, is therefore NOT detected and is recorded as such)",
                "crypt_gensalt_r / xcrypt_gensalt(_r) aliases (same mechanism as the checked ones)"],
    "assumptions": ["abi/released.h holds the released values", "goto-cc resolves __attribute__((alias)) as the linker does"],
    "trusted": [],
    "claim": "Layout/constants equality with the released header is decided exactly (constant queries through the real generated header); alias agreement is SAT-decided for all short settings. The export half of the property is declared outside the technique.",
    "note": "Symbol-version exports are not claimed (listed in outside_bounds and DESIGN.md).",
}
BUILD_ARGS = {}


SIGS = {   # by alias target
    "crypt": ("char *", "(const char *a, const char *b)", "(a, b)"),
    "crypt_r": ("char *", "(const char *a, const char *b, struct crypt_data *c)", "(a, b, c)"),
    "crypt_gensalt": ("char *", "(const char *a, unsigned long b, const char *c, int d)", "(a, b, c, d)"),
    "crypt_gensalt_rn": ("char *", "(const char *a, unsigned long b, const char *c, int d, char *e, int f)", "(a, b, c, d, e, f)"),
}


def alias_forwarders(build):
    """goto-cc keeps __attribute__((alias)) declarations without a body.  The alias
    pairs are read from the *preprocessed real units* (gcc -E -DPIC, same flags) and
    turned into forwarding functions, so CBMC executes 'alias X of Y' as 'X calls Y'
    with Y taken from /repo's source on every run."""
    import os, re, subprocess
    from vf.core import LIB, VerifError
    pairs = []
    for u in ("crypt.c", "crypt-static.c", "crypt-gensalt-static.c"):
        p = subprocess.run(["gcc", "-E", "-DPIC"] + build.cflags() + [os.path.join(LIB, u)],
                           stdout=subprocess.PIPE, stderr=subprocess.PIPE, text=True)
        if p.returncode:
            raise VerifError("gcc -E failed on " + u)
        for m in re.finditer(r"extern\s+__typeof\s*\((\w+)\)\s+(\w+)[^;]*alias\s*\(\s*\"(\w+)\"\s*\)", p.stdout):
            pairs.append((m.group(2), m.group(3)))
    out = os.path.join(build.dir, "alias_fwd.c")
    with open(out, "w") as f:
        f.write('#include "crypt-port.h"\n')
        for alias, target in pairs:
            base = re.sub(r"^_crypt_", "", target)
            if base not in SIGS:
                continue
            ret, params, args = SIGS[base]
            f.write("extern %s%s%s;\n%s%s%s { return %s%s; }\n" % (ret, target, params, ret, alias, params, target, args))
    return out, pairs


def queries(tier, seed, build):
    q1 = Query("c20-layout", "abi_layout.c", units=[], models=["libc.c"], defs=[], unwind=4, timeout=300)
    sc = build.sub("scaled", scale=SCALE)
    q2 = Query("c20-compat-aliases", "abi_compat.c", units=API_UNITS, models=["libc.c", "method_stub.c"],
               defs=["PIC", "Q_CRYPT", "MAX_S=6", "STUB_MAXLEN=8"], unit_defs=["PIC"], unwind=6,
               loops=[("^harness$|^same$", None, 14, False), ("^vf_oracle_init$|^stub$", None, 12, False)] + lib_loops(12),
               timeout=900)
    q2.loops_optional = True
    q2.str_bound = 12
    q2.build = sc
    fwd, pairs = alias_forwarders(sc)
    q2.models.append(fwd)
    q2.note = "alias pairs read from the preprocessed units: %s" % pairs
    return [q1, q2]
