"""C14: crypt_ra / crypt_gensalt_ra allocation protocol."""
from vf.core import Query
from .api import API_UNITS, SCALE
from .common import lib_loops, GENSALT_UNITS

BUILD_ARGS = {"scale": SCALE}
META = {
    "level": "other",
    "explanation": "One inductive step of the real crypt_ra from an arbitrary (*data,*size) satisfying the documented invariant (NULL, or a live malloc block of A bytes with *size <= 0 or *size <= A; A in {1, sizeof-1, sizeof, sizeof+8}), with a realloc model that may fail or move and CBMC's lifetime tracking (double free, use after free, invalid free are instrumented); the post-state is asserted to satisfy the invariant again, so sequences of any length follow by induction. crypt_gensalt_ra: malloc may fail; NULL result => the block was freed, non-NULL => result is the live block.",
    "functions": ["crypt_ra", "do_crypt", "make_failure_token", "crypt_gensalt_ra", "crypt_gensalt_rn"],
    "bounds": {"block sizes": "NULL, 1, sizeof-1, sizeof, sizeof+8", "*size": "all int values consistent with the invariant", "setting": "<= 6 symbolic bytes"},
    "outside": ["block sizes other than the five classes", "real allocator behaviour (CBMC's malloc/free model)"],
    "assumptions": ["scaled struct crypt_data (internal 288 bytes): crypt_ra is size-generic (sizeof)", "method contract stubs", "realloc model models/alloc.c"],
    "trusted": [],
    "claim": "Inductive step decided by SAT: from every state satisfying the caller-visible invariant, crypt_ra leaves *data unchanged or a live block of *size >= sizeof(struct crypt_data) bytes that can be freed exactly once, erased the old block before growing, zero-initialises the new one, and a non-NULL result points inside it; crypt_gensalt_ra leaks nothing and frees nothing twice.",
    "note": "Invariant-based (one step covers all histories if the invariant is right; the invariant is the documented protocol). CBMC's allocator model.",
}


def queries(tier, seed, build):
    qs = []
    for kind in range(5):
        q = Query("c14-crypt-ra-k%d" % kind, "api_ra.c", units=API_UNITS, models=["libc.c", "method_stub.c", "alloc.c"],
                  defs=["MAX_S=6", "STUB_MAXLEN=8", "KIND=%d" % kind], unwind=6,
                  loops=[("^harness$", None, 520, False), ("^vf_oracle_init$|^stub$", None, 12, False)] + lib_loops(12),
                  timeout=900)
        q.loops_optional = True
        q.str_bound = 12
        qs.append(q)
    q2 = Query("c14-gensalt-ra", "gensalt_ra.c", units=GENSALT_UNITS, models=["libc.c"],
               defs=["MAX_RB=20", 'PREFIX_RA="$6$"'], unwind=6, loops=[("^harness$", None, 200, False)] + lib_loops(200),
               timeout=900, malloc_may_fail=True, flags=["--memory-leak-check"])
    q2.loops_optional = True
    q2.str_bound = 200
    q2.build = build.sub("full")
    return qs + [q2]
