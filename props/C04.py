"""C04: memory safety and write confinement."""
from .api import api_queries, api_query, SCALE
from .methods import bf_core_query, METHODS, BY_NAME, method_query

BUILD_ARGS = {"scale": None}
QUICK_METHODS = ["md5crypt", "nt", "bigcrypt", "descrypt", "bsdicrypt", "sunmd5", "bcrypt", "bcrypt_x", "yescrypt", "scrypt"]
THOROUGH_METHODS = QUICK_METHODS + ["sunmd5-comma", "sunmd5-rounds", "sunmd5-comma-rounds", "sha256crypt", "sha256crypt-rounds", "sha512crypt", "sha512crypt-rounds"]
META = {
    "level": "other",
    "explanation": "CBMC with all pointer/bounds/overflow/shift checks on each real crypt_<m>_rn, called as do_crypt calls it: output and scratch are two objects of the real sizes (any write outside them, e.g. into the application-owned setting/input fields, is an out-of-object access), phrase and setting are exact-fit objects (the NUL is the last byte), digest kernels are havoc models that check readability of their input ranges; stretch loops abstracted after K iterations.",
    "functions": ["crypt_{md5crypt,sha256crypt,sha512crypt,sunmd5,nt,bigcrypt,descrypt,bsdicrypt}_rn", "check_badsalt_chars", "get_hashfn"],
    "bounds": {"quick": {"setting tail": "per method 8..40 symbolic bytes after the fixed prefix", "phrase": "<= 16 (bigcrypt 20) symbolic bytes", "stretch loops": "3 iterations then abstracted"},
               "thorough": {"setting tail": "same", "phrase": "<= 24", "stretch loops": "8 iterations"}},
    "outside": ["crypt_sha1crypt_rn as a method query (no verdict in 50 minutes even with the iteration count fixed: two snprintf calls with symbolic precision plus strspn over the alphabet); it is covered through C02 (structure, concrete lengths), C10 (composition with gensalt, thorough) and C01/C07 (thorough grids)", "memory safety inside the digest/cipher kernels with symbolic data (C16/C17 cover Update/Final framing and DES)",
                "bcrypt: the wrappers crypt_bcrypt*_rn / BF_full_crypt (self-test logic, final copy) are real, BF_crypt itself is a contract stub (models/bf_stub.c); yescrypt, scrypt, gost-yescrypt method bodies are not encoded",
                "settings longer than the stated bounds (340..420-character settings gave no verdict in 25 minutes; the space checks of the methods whose result grows with the setting - sunmd5, scrypt, yescrypt - are instead exercised at every out_size <= 64/72 with short settings, which is where seeds C04-m2/C06-m1/C05-m4 show up); stretch-loop iterations beyond K"],
    "assumptions": ["setting passed to a method contains no byte rejected by check_badsalt_chars (do_crypt establishes it: C05)",
                    "havoc digest models (models/digest_havoc.c): arbitrary digest bytes, context zeroed on Final"],
    "trusted": [],
    "claim": "For every phrase and setting inside the bounds the solver shows each encoded method reads only inside the caller's strings, writes only inside output[384] and the scratch area, leaves a NUL-terminated string inside output, and executes no C undefined behaviour that CBMC instruments (out-of-bounds, signed overflow, bad shift, division by zero).",
    "note": "Kernels are models; stretch loops are cut after K iterations (the cut is confirmed active each run); bounds in evidence.",
}


def queries(tier, seed, build):
    qs = []
    names = QUICK_METHODS if tier == "quick" else THOROUGH_METHODS
    for n in names:
        m = BY_NAME[n]
        qs.append(method_query(m, "c04-" + n, cap_k=3 if tier == "quick" else 8,
                               max_p=m.max_p if tier == "quick" else max(m.max_p, 24),
                               timeout=900 if tier == "quick" else 3000))
    # space checks that are linear in out_size and the setting length, at every out_size <= cap
    for n, ms, cap in (("sunmd5", 6, 64), ("yescrypt", 6, 64), ("scrypt", 12, 72)):
        qs.append(method_query(BY_NAME[n], "c04-%s-osize" % n, max_s=ms, max_p=1,
                               extra_defs=["SYM_OUT_SIZE", "OSIZE_CAP=%d" % cap], timeout=900 if tier == "quick" else 3000))
    qs.append(bf_core_query('c04-bcrypt-core'))
    return qs
