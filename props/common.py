"""Unit lists and the method table shared by the property modules."""
from vf.core import Query

UTIL = ["util-make-failure-token.c", "util-xstrcpy.c", "util-base64.c"]
METHOD_UNITS = ["crypt-md5.c", "crypt-sha256.c", "crypt-sha512.c", "crypt-sunmd5.c",
                "crypt-pbkdf1-sha1.c", "crypt-nthash.c", "crypt-des.c", "crypt-bcrypt.c",
                "crypt-scrypt.c", "crypt-yescrypt.c", "crypt-gost-yescrypt.c"]
GENSALT_UNITS = (["crypt.c", "util-gensalt-sha.c", "util-get-random-bytes.c"] + UTIL +
                 METHOD_UNITS + ["alg-yescrypt-common.c"])

# name, prefix given to crypt_gensalt, tag length that the result must start with,
# nrbytes the table requests, table tag
PREFIXES = [
    ("sha1crypt", "$sha1", 5, 20),
    ("bcrypt_a", "$2a$", 4, 16),
    ("bcrypt", "$2b$", 4, 16),
    ("bcrypt_x", "$2x$", 4, 16),
    ("bcrypt_y", "$2y$", 4, 16),
    ("gost_yescrypt", "$gy$", 4, 16),
    ("sunmd5", "$md5", 4, 8),
    ("md5crypt", "$1$", 3, 9),
    ("nt", "$3$", 3, 1),
    ("sha256crypt", "$5$", 3, 15),
    ("sha512crypt", "$6$", 3, 15),
    ("scrypt", "$7$", 3, 16),
    ("yescrypt", "$y$", 3, 16),
    ("bsdicrypt", "_", 1, 3),
    ("descrypt", "", 0, 2),
]


def cstr(s):
    return '"%s"' % s.replace("\\", "\\\\").replace('"', '\\"')


def lib_loops(strb):
    """Per-loop unwinding bounds for library and model loops, derived from the code
    (checked by --unwinding-assertions: a bound that is too small is reported as a
    machinery error, never as success).  strb = longest string any str* loop scans + 2."""
    return [
        (r"^(strlen|strcspn|strspn|strncmp|strcmp|strchr|strrchr|memcmp|memchr)(\$|$)", None, strb, False),
        (r"^vsnprintf$", None, max(strb, 24), False),
        (r"^vf_fmt_ulong$", None, 21, False),
        (r"^strtoul$", None, strb, False),
        (r"^get_hashfn$", None, 18, False),
        (r"^arc4random_buf$", None, 258, False),
        (r"^havoc_bytes$", None, 66, False),
        (r"^strspn$", None, max(strb, 67), False),
        (r"^check_badsalt_chars$", None, strb, False),
        # yescrypt/scrypt base-64 helpers: 32-bit values are at most 6 chars; 64 salt
        # bytes are 22 groups of 3
        (r"encode64_uint32_fixed", None, 7, False),
        (r"encode64_uint32(\$link\d+)?$", None, 8, False),
        (r"(^|_)encode64(\$link\d+)?$", r"for \(i = 0; i < srclen", 40, False),   # 22 groups for 64 bytes; slack so a longer salt reaches the assertions
        (r"(^|_)encode64(\$link\d+)?$", r"while \(bits < 24|^\s*do\s*$|do \{", 5, False),
        (r"N2log2", None, 66, False),
        (r"decode64_uint32(_fixed)?$", None, 8, False),
        (r"yescrypt_decode64$", r"while \(srclen--\)", 6, False),
        (r"yescrypt_decode64$", r"dstpos\+\+ <", 5, False),
        (r"yescrypt_decode64$", r"dstpos <= \*dstlen", 40, False),
        (r"^verify_salt$", None, strb, False),
        (r"^BF_encode$", None, 8, False),
        (r"^to64$", None, 6, False),
        (r"gensalt_sha1crypt_rn$", None, 24, False),
        (r"gensalt_sha_rn$", r"ceiling", 12, False),
        (r"gensalt_sha_rn$", r"while \(written", 8, False),
    ]
