"""Table of hashing methods: real units, kernel models, loop caps, output shape."""
from vf.core import Query
from .common import cstr, lib_loops

CRYPT_C = ("crypt.c", [], {"export_static": True})
BASE_UNITS = [CRYPT_C, "util-make-failure-token.c", "util-xstrcpy.c", "util-base64.c"]


class M:
    def __init__(self, name, fn, prefix, units, mdefs, hash_len, alpha=0, sep=1,
                 caps=(), max_s=24, precond=None, shape=None, extra_loops=(), max_p=16, can_fail=True):
        self.can_fail = can_fail
        self.name = name
        self.fn = fn
        self.prefix = prefix
        self.units = units
        self.mdefs = mdefs
        self.hash_len = hash_len
        self.alpha = alpha
        self.sep = sep
        self.caps = list(caps)          # (function regex, source regex): stretch loops, abstracted
        self.max_s = max_s
        self.precond = precond
        self.shape = shape
        self.extra_loops = list(extra_loops)
        self.max_p = max_p


def SHA_LOOPS(tag, blk):
    return [("recycled", None, 2, False), ("crypt_%scrypt_rn" % tag, r"cnt > %d" % blk, 2, False),
            ("crypt_%scrypt_rn" % tag, r"cnt >>= 1", 7, False)]


DES_PRE = ("if (in_slen >= 1) __CPROVER_assume(in_slen >= 2 && des_ch(in_setting[off]) && des_ch(in_setting[off+1]));")

METHODS = [
    M("md5crypt", "crypt_md5crypt_rn", "$1$", ["crypt-md5.c"], ["M_MD5"], 22,
      caps=[("crypt_md5crypt_rn", r"cnt < 1000")], max_s=16, can_fail=False,
      extra_loops=[("crypt_md5crypt_rn", r"cnt > 16", 3, False), ("crypt_md5crypt_rn", r"cnt >>= 1", 7, False)]),
    M("sha256crypt", "crypt_sha256crypt_rn", "$5$", ["crypt-sha256.c"], ["M_SHA256", "NOT_ROUNDS"], 43,
      caps=[("crypt_sha256crypt_rn", r"cnt < rounds"), ("crypt_sha256crypt_rn", r"16 \+ \(size_t\) result\[0\]")], max_s=20,
      extra_loops=SHA_LOOPS("sha256", 32), can_fail=False),
    M("sha256crypt-rounds", "crypt_sha256crypt_rn", "$5$rounds=", ["crypt-sha256.c"], ["M_SHA256"], 43,
      caps=[("crypt_sha256crypt_rn", r"cnt < rounds"), ("crypt_sha256crypt_rn", r"16 \+ \(size_t\) result\[0\]")], max_s=14,
      extra_loops=SHA_LOOPS("sha256", 32), max_p=8),
    M("sha512crypt", "crypt_sha512crypt_rn", "$6$", ["crypt-sha512.c"], ["M_SHA512", "NOT_ROUNDS"], 86,
      caps=[("crypt_sha512crypt_rn", r"cnt < rounds"), ("crypt_sha512crypt_rn", r"16 \+ \(size_t\) result\[0\]")], max_s=20,
      extra_loops=SHA_LOOPS("sha512", 64), can_fail=False),
    M("sha512crypt-rounds", "crypt_sha512crypt_rn", "$6$rounds=", ["crypt-sha512.c"], ["M_SHA512"], 86,
      caps=[("crypt_sha512crypt_rn", r"cnt < rounds"), ("crypt_sha512crypt_rn", r"16 \+ \(size_t\) result\[0\]")], max_s=14,
      extra_loops=SHA_LOOPS("sha512", 64), max_p=8),
    M("sunmd5", "crypt_sunmd5_rn", "$md5$", ["crypt-sunmd5.c"], ["M_MD5", "NOT_ROUNDS"], 22,
      caps=[("crypt_sunmd5_rn", r"i < nrounds")], max_s=16),
    M("sunmd5-comma", "crypt_sunmd5_rn", "$md5,", ["crypt-sunmd5.c"], ["M_MD5", "NOT_ROUNDS"], 22,
      caps=[("crypt_sunmd5_rn", r"i < nrounds")], max_s=12),
    M("sunmd5-rounds", "crypt_sunmd5_rn", "$md5$rounds=", ["crypt-sunmd5.c"], ["M_MD5"], 22,
      caps=[("crypt_sunmd5_rn", r"i < nrounds")], max_s=16, max_p=8),
    M("sunmd5-comma-rounds", "crypt_sunmd5_rn", "$md5,rounds=", ["crypt-sunmd5.c"], ["M_MD5"], 22,
      caps=[("crypt_sunmd5_rn", r"i < nrounds")], max_s=16, max_p=8),
    M("sha1crypt", "crypt_sha1crypt_rn", "$sha1$", ["crypt-pbkdf1-sha1.c"], ["M_HMAC_SHA1"], 28,
      caps=[("crypt_sha1crypt_rn", r"i < iterations")], max_s=20, max_p=8),
    # iteration count fixed (no symbolic digits): the salt grammar
    M("sha1crypt-salt", "crypt_sha1crypt_rn", "$sha1$24680$", ["crypt-pbkdf1-sha1.c"], ["M_HMAC_SHA1"], 28,
      caps=[("crypt_sha1crypt_rn", r"i < iterations")], max_s=16, max_p=8),
    M("nt", "crypt_nt_rn", "$3$", ["crypt-nthash.c"], ["M_MD4"], 32, alpha=1, max_s=8, can_fail=False),
    M("bigcrypt", "crypt_bigcrypt_rn", "", ["crypt-des.c"], ["M_DES"], 11, sep=0, max_s=24,
      precond=DES_PRE, max_p=20),
    M("descrypt", "crypt_descrypt_rn", "", ["crypt-des.c"], ["M_DES"], 11, sep=0, max_s=16,
      precond=DES_PRE),
    M("bsdicrypt", "crypt_bsdicrypt_rn", "_", ["crypt-des.c"], ["M_DES"], 11, sep=0, max_s=24),
    M("yescrypt", "crypt_yescrypt_rn", "$y$", ["crypt-yescrypt.c", "alg-yescrypt-common.c"],
      ["M_YESCRYPT_KDF", "M_SHA256", "M_HMAC_SHA256"], 43, max_s=14, max_p=4),
    M("scrypt", "crypt_scrypt_rn", "$7$", ["crypt-scrypt.c", "crypt-yescrypt.c", "alg-yescrypt-common.c"],
      ["M_YESCRYPT_KDF", "M_SHA256", "M_HMAC_SHA256"], 43, max_s=18, max_p=4),
    M("gost_yescrypt", "crypt_gost_yescrypt_rn", "$gy$",
      ["crypt-gost-yescrypt.c", "crypt-yescrypt.c", "alg-yescrypt-common.c"],
      ["M_YESCRYPT_KDF", "M_SHA256", "M_HMAC_SHA256", "M_GOST"], 43, max_s=14, max_p=4),
]
# scrypt: every character after "$7$" is a base-64 digit or '$' (doc/crypt.5; verify_salt)
BY = {m.name: m for m in METHODS}
BY["scrypt"].must_reject = ("{ _Bool term = 0; for (size_t j = 0; j < MAX_S; j++) if (j < in_slen) { char c = setting[PLEN + j]; "
                            "if (j < 11) { if (!alpha_ok((unsigned char)c)) bad = 1; } "       # N, r, p digits
                            "else if (!term) { if (c == '$') term = 1; else if (!alpha_ok((unsigned char)c)) bad = 1; } } }")  # salt up to its '$'
# yescrypt: "$y$" params "$" salt [ "$" hash ]: the salt field (up to its '$', or the end) is base-64
# only; parameter digits are base-64 (doc/crypt.5; yescrypt_r requires decode64 to consume the field)
BY["yescrypt"].must_reject = ("{ int fld = 0; for (size_t j = 0; j < MAX_S; j++) if (j < in_slen) { char c = setting[PLEN + j]; "
                              "if (c == '$') fld++; else if (fld <= 1 && !alpha_ok((unsigned char)c)) bad = 1; } }")
# sha1crypt: the salt is 1..64 base-64 characters (doc/crypt.5; the F1 fix): a longer run is refused
BY["sha1crypt-salt"].must_reject = ("{ size_t run = 0; for (size_t j = 0; j < MAX_S; j++) if (j < in_slen && run == j && alpha_ok((unsigned char)setting[PLEN + j])) run = j + 1; "
                                   "if (run == 0 || run > 64) bad = 1; }")
BF_UNIT = ("crypt-bcrypt.c", ["__CPROVER_file_local_crypt_bcrypt_c_BF_crypt"], {"export_static": True})
BF_PRE = ("__CPROVER_assume(in_slen >= 25);")     # prefix + cost + 22 salt characters at least
for _n, _fn, _p in (("bcrypt", "crypt_bcrypt_rn", "$2b$"), ("bcrypt_a", "crypt_bcrypt_a_rn", "$2a$"),
                    ("bcrypt_x", "crypt_bcrypt_x_rn", "$2x$"), ("bcrypt_y", "crypt_bcrypt_y_rn", "$2y$")):
    METHODS.append(M(_n, _fn, _p, [BF_UNIT], ["M_BF_STUB"], 31, sep=0, max_s=28, precond=BF_PRE, max_p=8,
                     extra_loops=[("^BF_set_key$", None, 20, False), ("BF_crypt$", None, 62, False)]))
BY_NAME = {m.name: m for m in METHODS}

DES_CH = ("static int des_ch(char c){return (c>='a'&&c<='z')||(c>='A'&&c<='Z')||(c>='0'&&c<='9')||c=='.'||c=='/';}")


def method_query(m, qname, harness="crypt_method.c", max_s=None, max_p=None, cap_k=3,
                 at_base=False, model="digest_havoc.c", extra_defs=(), timeout=900, unwind=None,
                 extra_models=(), harness_loop=400):
    max_s = m.max_s if max_s is None else max_s
    max_p = m.max_p if max_p is None else max_p
    defs = ["METHOD_FN=" + m.fn, "PREFIX_STR=" + cstr(m.prefix), "MAX_S=%d" % max_s,
            "MAX_P=%d" % max_p, "HASH_LEN=%d" % m.hash_len, "HASH_ALPHA=%d" % m.alpha,
            "SEP_DOLLAR=%d" % m.sep] + list(m.mdefs) + list(extra_defs)
    if m.precond:
        defs.append("SETTING_PRECOND=" + m.precond)
        defs.append("VF_DES_CH")
    if m.shape:
        defs.append("SHAPE_CHECK=" + m.shape)
    defs.append("OUT_BOUND=%d" % (len(m.prefix) + max_s + m.hash_len + 3))
    if getattr(m, "must_reject", None):
        defs.append("MUST_REJECT=" + m.must_reject)
    if at_base:
        defs.append("SETTING_AT_BASE")
    if not m.can_fail:
        defs.append("EXPECT_NO_FAILURE")
    loops = [("^harness$", None, harness_loop, False)]
    for freg, sreg in m.caps:
        loops.append((freg, sreg, cap_k, True))
    loops += m.extra_loops
    out_bound = len(m.prefix) + max_s + m.hash_len + 24
    loops += lib_loops(out_bound)
    if "M_YESCRYPT_KDF" in m.mdefs:
        defs.append("SCR_SIZE=%d" % (2048 if "M_GOST" in m.mdefs else 512))
    if "M_BF_STUB" in m.mdefs:
        extra_models = list(extra_models) + ["bf_stub.c"]
    q = Query(qname, harness, units=BASE_UNITS + m.units, models=["libc.c", model] + list(extra_models),
              defs=defs, unwind=unwind or max(max_p + 2, 20), loops=loops,
              timeout=timeout)
    q.loops_optional = True
    q.str_bound = out_bound
    q.replay_kind = "crypt"
    q.replay_prefix = m.prefix
    return q


def rel_query(m, qname, mode, max_s=None, max_p=6, cap_k=2, timeout=1500, model="digest_uf.c", extra_defs=()):
    """Relational query (harness/crypt_rel.c) over UF digest models."""
    max_s = m.max_s if max_s is None else max_s
    out_max = len(m.prefix) + max_s + m.hash_len + 22
    scr = {"crypt_nt_rn": 1280, "crypt_sha512crypt_rn": 1024, "crypt_sha256crypt_rn": 512}.get(m.fn, 384)
    defs = ["METHOD_FN=" + m.fn, "PREFIX_STR=" + cstr(m.prefix), "MAX_S=%d" % max_s, "MAX_P=%d" % max_p,
            "HASH_LEN=%d" % m.hash_len, "HASH_ALPHA=%d" % m.alpha, "OUT_MAX=%d" % out_max, mode,
            "SCRATCH_GARBAGE=%d" % min(256, scr), "SCR_SIZE=%d" % scr] + [d for d in m.mdefs] + list(extra_defs)
    if m.precond:
        defs += ["SETTING_PRECOND=" + m.precond, "VF_DES_CH"]
    loops = [("^harness$|^slen$|^tok$", None, max(out_max, 260) + 2, False), ("^absorb$", None, 10, False), ("^emit$", None, 10, False)]
    for freg, sreg in m.caps:
        loops.append((freg, sreg, cap_k, True))
    loops += m.extra_loops + lib_loops(out_max + 2)
    models = ["libc.c", "des_uf.c" if "M_DES" in m.mdefs else model]
    q = Query(qname, "crypt_rel.c", units=["util-xstrcpy.c", "util-base64.c"] + m.units, models=models,
              defs=defs, unwind=max(max_p + 2, 20), loops=loops, timeout=timeout)
    q.loops_optional = True
    q.str_bound = out_max + 2
    q.replay_kind = "crypt"
    q.replay_prefix = m.prefix
    return q


def bf_core_query(qname, max_p=2, timeout=1500):
    """The real static BF_crypt called directly, Eksblowfish loops cut after one iteration
    (harness/bf_crypt.c): setting validation, salt decoding, key schedule, output formatting."""
    loops = [("^harness$|^bf64$", None, 70, False)]
    for n in (0, 1, 3, 4, 6, 7, 8, 9):          # the loops that contain BF_ENCRYPT / BF_body / the cost loop
        loops.append((r"^BF_crypt$", n, 1, True))
    for n, k in ((2, 10), (5, 6)):
        loops.append((r"^BF_crypt$", n, k, False))
    loops += [(r"^BF_set_key$", None, 20, False), (r"^BF_decode$|^BF_encode$", None, 12, False), (r"^BF_swap$", None, 8, False)]
    q = Query(qname, "bf_crypt.c", units=[("crypt-bcrypt.c", [], {"export_static": True})], models=["libc.c"],
              defs=["MAX_P=%d" % max_p], unwind=6, loops=loops, timeout=timeout)
    q.note = "loops of BF_crypt numbered 0,1,3,4,6,7,8,9 (Eksblowfish) are cut after one iteration"
    return q
