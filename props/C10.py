"""C10: every setting crypt_gensalt* produces is accepted by crypt and kept in the hash."""
from vf.core import Query
from .methods import bf_core_query, BY_NAME, CRYPT_C
from .common import GENSALT_UNITS, lib_loops, cstr
from .C13 import queries as c13_queries

META = {
    "level": "other",
    "explanation": "Composition decided by CBMC: the real crypt_gensalt_rn + gensalt_<m>_rn (symbolic count, symbolic random bytes) followed by the real crypt_<m>_rn of the selected method (havoc digest/KDF kernels, stretch loops cut) on the generated setting: it passes check_badsalt_chars, selects the same table entry through get_hashfn, hashing succeeds and the result has the setting as a literal prefix. For the yescrypt family the real yescrypt_r parameter/salt decoder runs on the generated string. Printable/tag/length/determinism parts are the C13 queries (success branch) and the default-prefix query of C18.",
    "functions": ["crypt_gensalt_rn", "gensalt_*_rn", "get_hashfn", "check_badsalt_chars", "crypt_{md5crypt,nt,bigcrypt,bsdicrypt,sunmd5,sha256crypt,sha512crypt,sha1crypt,yescrypt,scrypt}_rn", "BF_crypt", "yescrypt_r", "decode64", "decode64_uint32"],
    "bounds": {"count": "all values", "random bytes": "16 (sha1crypt 20; yescrypt family also 70 to cross the 64-byte clamp)", "phrase": "<= 4 bytes"},
    "outside": ["gost-yescrypt composition (its method body needs a 2 KB scratch object, with which the query exhausts 12 GB; its gensalt is yescrypt's plus a one-character shift, checked in C11-C13)", "bcrypt's Eksblowfish core (cut after one iteration per loop; validation and formatting of BF_crypt are real)", "crypt_gensalt / crypt_gensalt_ra wrappers (one-line forwarders; C14 covers _ra)"],
    "assumptions": ["havoc kernels; stretch loops cut after 2 iterations"],
    "trusted": [],
    "claim": "For every count and every random-byte content, a setting that crypt_gensalt_rn returns is accepted by the real parser of the same method and reproduced as the prefix of the hash (SAT-decided composition of generator and parser).",
    "note": "bcrypt outside; kernels modelled.",
}

# method-table name, gensalt prefix, method used by crypt for that setting, NRB, max generated length
COMP = [
    ("descrypt", "", "bigcrypt", 16, 4, []),
    ("bsdicrypt", "_", "bsdicrypt", 16, 12, []),
    ("md5crypt", "$1$", "md5crypt", 16, 14, ["COUNT_MAX=0"]),
    ("nt", "$3$", "nt", 16, 6, ["COUNT_MAX=0"]),
    ("sunmd5", "$md5", "sunmd5", 16, 40, []),
    ("sha256crypt", "$5$", "sha256crypt", 16, 40, []),
    ("sha512crypt", "$6$", "sha512crypt", 16, 40, []),
    ("sha1crypt", "$sha1", "sha1crypt", 20, 40, ["COUNT_MAX=4096"]),
    ("sha1crypt-70", "$sha1", "sha1crypt", 70, 90, ["COUNT_MAX=4096"]),
    ("yescrypt", "$y$", "yescrypt", 16, 40, []),
    ("yescrypt-70", "$y$", "yescrypt", 70, 110, []),
    ("scrypt", "$7$", "scrypt", 16, 44, []),
]
QUICK = ["descrypt", "bsdicrypt", "md5crypt", "nt", "sunmd5", "yescrypt", "yescrypt-70", "scrypt"]


def queries(tier, seed, build):
    qs = []
    for name, prefix, mname, nrb, gsmax, extra in COMP:
        if tier == "quick" and name not in QUICK:
            continue
        m = BY_NAME[mname]
        defs = ["METHOD_FN=" + m.fn, "PREFIX_STR=" + cstr(prefix), "NRB=%d" % nrb, "GS_MAX=%d" % gsmax] + \
               [d for d in m.mdefs if d != "NOT_ROUNDS"] + extra + (["SCR_SIZE=512", "KDF_NO_FAIL"] if "M_YESCRYPT_KDF" in m.mdefs else [])
        loops = [("^harness$", None, max(gsmax + 4, nrb + 2), False)]
        for freg, sreg in m.caps:
            loops.append((freg, sreg, 2, True))
        loops += m.extra_loops + lib_loops(gsmax + m.hash_len + 30)
        units = [CRYPT_C] + [u for u in GENSALT_UNITS if u != "crypt.c"]
        q = Query("c10-" + name, "gensalt_crypt.c", units=units, models=["libc.c", "digest_havoc.c"],
                  defs=defs, unwind=20, loops=loops, timeout=1500 if tier == "quick" else 3000)
        q.loops_optional = True
        q.str_bound = gsmax + m.hash_len + 30
        q.replay_kind = "gensalt"
        q.replay_prefix = prefix
        qs.append(q)
    qs.append(bf_core_query('c10-bcrypt-core'))
    return qs
