"""C09: working memory and passphrase copies are erased before returning."""
from vf.core import Query
from .api import api_query, SCALE
from .common import GENSALT_UNITS, lib_loops, cstr

BUILD_ARGS = {"scale": SCALE}
# SHA-1's compression function is replaced by a havoc stub (its body is removed from
# the real unit): sha1_finish_ctx pads byte by byte, i.e. up to 64 conditional calls
SHA1_UNIT = ("alg-sha1.c", ["__CPROVER_file_local_alg_sha1_c_sha1_do_transform"], {"export_static": True})
META = {
    "level": "other",
    "explanation": "Source-level erasure obligations, each decided by CBMC on the real code: (a) do_crypt via crypt_r/crypt_rn from arbitrary internal/reserved/initialized: all zero after any call that reached a method (success or failure), bit-identical otherwise; (b) MD4/MD5/SHA-1/SHA-256/SHA-512/HMAC-SHA256 Final leave an all-zero context from an arbitrary context; (c) crypt_ra erases an undersized block before realloc (C14 harness); (d) crypt_gensalt_rn(rbytes=NULL) wipes the drawn bytes after the draw on success and on every failure path; (e) hmac_sha1_process_data wipes each stack temporary over its whole object and issues the expected number of wipes; (f) PBKDF2_SHA256 (SHA256_Transform havoc) does the same on its fast (c == 1) and generic paths at c == 1: three HMAC contexts, U, T, tmp32 and u.",
    "functions": ["do_crypt", "crypt_r", "crypt_rn", "MD4_Final", "MD5_Final", "sha1_finish_ctx", "SHA256_Final", "SHA512_Final", "HMAC_SHA256_Final", "crypt_gensalt_rn", "get_random_bytes", "hmac_sha1_process_data", "PBKDF2_SHA256", "_HMAC_SHA256_Init", "_HMAC_SHA256_Update", "_HMAC_SHA256_Final", "SHA256_Pad_Almost"],
    "bounds": {"setting": "<= 8 symbolic bytes (a)", "contexts": "arbitrary (b)", "HMAC key": "lengths 0, 20, 64, 65, 70 (e)", "PBKDF2": "concrete (passwdlen, saltlen, dkLen) grids covering both paths, key > 64, salt residue 51/52, partial last block; c == 1 (f; c in 1..3 symbolic gave no verdict in 15 min / 11 GB)", "count/output_size": "symbolic (d)"},
    "outside": ["machine stack residue and compiler spill copies (not observable by a source-level checker)", "locals of yescrypt/bcrypt (BF_crypt self-test overwrite) and GOST Final", "passphrase copies inside method scratch are covered by the unconditional wipe (a)"],
    "assumptions": ["explicit_bzero is memset(0) that the compiler keeps (its purpose); the model logs pointer and length", "scaled data object at API level"],
    "trusted": [],
    "claim": "Each listed erasure obligation holds for every input/state within the bounds (SAT); a return inserted before the wipe, a shortened wipe length, a wipe of the wrong buffer or a removed explicit_bzero is a counterexample.",
    "note": "Source-level objects only; the -O0 stack-region clause of the property is outside this technique.",
}


def queries(tier, seed, build):
    qs = []
    for ep in ("EP_R", "EP_RN"):
        qs.append(api_query(ep, 1, 1, "CHECK_ERASE", max_s=8, max_p=4))
        for pk, sk in ((0, 1), (2, 1), (1, 0)):
            qs.append(api_query(ep, pk, sk, "CHECK_ERASE", max_s=8, max_p=4))
    full = build.sub("full")
    for w, units in (("W_MD5", ["alg-md5.c"]), ("W_MD4", ["alg-md4.c"]), ("W_SHA1", [SHA1_UNIT]),
                     ("W_SHA256", ["alg-sha256.c"]), ("W_SHA512", ["alg-sha512.c"]), ("W_HMAC_SHA256", ["alg-sha256.c"])):
        q = Query("c09-final-" + w[2:].lower(), "wipe_final.c", units=units,
                  models=["libc.c"] + (["transform_havoc.c"] if w == "W_SHA1" else []), defs=[w, "T_SHA1"],
                  unwind=130 if w != "W_SHA1" else 10,
                  loops=[("^harness$", None, 300, False), ("sha1_finish_ctx", None, 66, False), ("sha1_process_bytes", None, 3, False)],
                  flags=["--object-bits", "12"], timeout=900)
        q.loops_optional = True
        q.build = full
        qs.append(q)
    for kl in (0, 20, 64, 65, 70):
        q = Query("c09-hmac-sha1-locals-k%d" % kl, "wipe_hmac_sha1.c", units=["alg-hmac-sha1.c", SHA1_UNIT],
                  models=["libc.c", "transform_havoc.c"], defs=["MAXK=70", "T_SHA1", "KLEN=%d" % kl, "TLEN=5"], unwind=10,
                  loops=[("^harness$", None, 72, False), ("sha1_finish_ctx", None, 66, False), ("sha1_process_bytes", None, 3, False),
                         ("hmac_sha1_process_data", None, 72, False)],
                  flags=["--object-bits", "12"], timeout=1200)
        q.build = full
        qs.append(q)
    sha256_unit = ("alg-sha256.c", ["__CPROVER_file_local_alg_sha256_c_SHA256_Transform"], {"export_static": True})
    # (PLEN, SLEN, DKLEN, MAXC): both paths with c in {1, 2}; generic path forced by a
    # 52-byte salt residue / a partial last block with c == 1 possible; long key (> 64)
    grid = [(8, 52, 32, 1), (8, 4, 40, 1), (70, 4, 64, 1)]
    if tier == "thorough":
        grid += [(64, 51, 64, 1), (3, 60, 1, 1)]
    for pl, sl, dk, mc in grid:
        q = Query("c09-pbkdf2-locals-p%d-s%d-d%d" % (pl, sl, dk), "wipe_pbkdf2.c", units=[sha256_unit],
                  models=["libc.c", "block_log.c"], defs=["T_SHA256", "PLEN=%d" % pl, "SLEN=%d" % sl, "DKLEN=%d" % dk, "MAXC=%d" % mc, "MAXDK=128"],
                  unwind=6,
                  loops=[("^harness$", None, 130, False), ("Transform$", None, 130, False), ("PBKDF2_SHA256$", None, 34, False),
                         ("SHA256_Update$", None, 4, False), ("HMAC_SHA256_Init$", None, 66, False),
                         ("_vect$|^be64enc|^be32enc|^cpu_to_be", None, 10, False)],
                  flags=["--object-bits", "12"], timeout=900)
        q.loops_optional = True
        q.build = full
        qs.append(q)
    for name, prefix in (("yescrypt", "$y$"), ("sha512crypt", "$6$"), ("bcrypt", "$2b$"), ("sha1crypt", "$sha1"), ("descrypt", "")):
        q = Query("c09-gensalt-entropy-" + name, "wipe_gensalt.c", units=GENSALT_UNITS, models=["libc.c"],
                  defs=["PREFIX_STR=" + cstr(prefix)], unwind=6,
                  loops=[("^harness$", None, 12, False)] + lib_loops(200), timeout=900)
        q.loops_optional = True
        q.str_bound = 200
        q.build = full
        qs.append(q)
    return qs
