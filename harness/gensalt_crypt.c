/* C10: every setting crypt_gensalt_rn produces is accepted by the method it
   selects and kept as a literal prefix of the hash.  Real crypt_gensalt_rn +
   gensalt_<m>_rn composed with the real crypt_<m>_rn (havoc kernels) on symbolic
   count / random bytes / phrase.  */
#include "crypt-port.h"
#include <errno.h>
#include "vf.h"
extern void METHOD_FN(const char *, size_t, const char *, size_t, uint8_t *, size_t, void *, size_t);
struct hashfn;
extern const struct hashfn *__CPROVER_file_local_crypt_c_get_hashfn(const char *);
extern int __CPROVER_file_local_crypt_c_check_badsalt_chars(const char *);
#ifndef NRB
#define NRB 16
#endif
unsigned long in_count;
unsigned char in_rbytes[NRB];
char in_phrase[5];
size_t in_plen;
static char gs[CRYPT_GENSALT_OUTPUT_SIZE];
static char out[CRYPT_OUTPUT_SIZE];
#ifndef SCR_SIZE
#define SCR_SIZE ALG_SPECIFIC_SIZE
#endif
static _Alignas(16) unsigned char scratch[SCR_SIZE];   /* see crypt_method.c on SCR_SIZE */

void harness(void)
{
  in_count = nondet_ulong();
#ifdef COUNT_MAX
  __CPROVER_assume(in_count <= COUNT_MAX);
#endif
  static char rb[NRB];
  for (int i = 0; i < NRB; i++) { in_rbytes[i] = nondet_uchar(); rb[i] = (char)in_rbytes[i]; }
  in_plen = nondet_size_t(); __CPROVER_assume(in_plen <= 4);
  for (int i = 0; i < 4; i++) { in_phrase[i] = nondet_char(); if ((size_t)i < in_plen) __CPROVER_assume(in_phrase[i] != 0); }
  in_phrase[in_plen] = 0;
  char *r = crypt_gensalt_rn(PREFIX_STR, in_count, rb, NRB, gs, sizeof gs);
  if (r) {
    size_t n = 0;
    for (size_t i = 0; i < GS_MAX; i++) if (n == i && gs[i]) n = i + 1;
    VF_ASSERT(n < GS_MAX, "C10: generated setting is shorter than the method's maximum");
    VF_ASSERT(!__CPROVER_file_local_crypt_c_check_badsalt_chars(gs), "C10: generated setting passes crypt's character filter");
    VF_ASSERT(__CPROVER_file_local_crypt_c_get_hashfn(gs) == __CPROVER_file_local_crypt_c_get_hashfn(PREFIX_STR), "C10: generated setting selects the method of the prefix");
    out[0] = '*'; out[1] = '0'; out[2] = 0;
    errno = 0;
    METHOD_FN(in_phrase, in_plen, gs, n, (uint8_t *)out, sizeof out, scratch, sizeof scratch);
    VF_ASSERT(out[0] != '*', "C10: hashing with a generated setting succeeds");
    for (size_t i = 0; i < GS_MAX; i++) if (i < n) VF_ASSERT(out[i] == gs[i], "C10: the hash has the generated setting as a literal prefix");
    VF_WITNESS("generated and hashed");
  }
}
