/* C17 Q5: setkey_r/encrypt_r/setkey/encrypt (crypt-des-obsolete.c, real) over a
   functional model of the DES core.  */
#include "crypt-port.h"
#include "crypt-obsolete.h"
#include "alg-des.h"
#include "vf.h"

uint64_t __CPROVER_uninterpreted_des_keyid(uint64_t key);
uint64_t __CPROVER_uninterpreted_des_block(uint64_t keyid, uint32_t salt, uint64_t in, unsigned count, _Bool dec);
extern void setkey(const char *); extern void encrypt(char *, int);
extern void setkey_r(const char *, struct crypt_data *); extern void encrypt_r(char *, int, struct crypt_data *);

char in_key[64], in_block[64];
int in_edflag;
static struct crypt_data cd;

static uint64_t pack(const char *v) { uint64_t x = 0; for (int i = 0; i < 64; i++) x = (x << 1) | ((unsigned char)v[i] & 1u); return x; }

void harness(void)
{
  char b1[64], b2[64];
  for (int i = 0; i < 64; i++) { in_key[i] = nondet_char(); in_block[i] = nondet_char(); b1[i] = in_block[i]; b2[i] = in_block[i]; }
  in_edflag = nondet_int();
  /* arbitrary prior contents of the part of the data object the context lives in */
  for (size_t i = 0; i < 160; i++) cd.internal[i] = nondet_char();
  setkey_r(in_key, &cd);
  encrypt_r(b1, in_edflag, &cd);
  setkey(in_key);
  encrypt(b2, in_edflag);
  uint64_t want = __CPROVER_uninterpreted_des_block(__CPROVER_uninterpreted_des_keyid(pack(in_key) & 0xfefefefefefefefeULL), 0, pack(in_block), 1, in_edflag != 0);
  for (int i = 0; i < 64; i++) {
    VF_ASSERT(b1[i] == 0 || b1[i] == 1, "C17: encrypt_r results are bytes 0/1");
    VF_ASSERT((uint64_t)b1[i] == ((want >> (63 - i)) & 1), "C17: encrypt_r = unpack(DES(pack(key) [low bits only], pack(block)), salt 0, count 1)");
    VF_ASSERT(b2[i] == b1[i], "C17: static and re-entrant variants agree");
  }
  VF_WITNESS("obsolete api compared");
}
