/* C15: crypt_yescrypt_rn / crypt_gost_yescrypt_rn (real) under every fault
   schedule of init_local / the KDF's mappings / free_local (munmap).  */
#include "crypt-port.h"
#include <errno.h>
#include "vf.h"
extern void METHOD_FN(const char *, size_t, const char *, size_t, uint8_t *, size_t, void *, size_t);
extern int vf_local_live; extern unsigned vf_init_calls, vf_free_calls, vf_kdf_calls;
extern _Bool vf_init_failed, vf_free_failed, vf_r_failed;
static char out[CRYPT_OUTPUT_SIZE];
static _Alignas(16) unsigned char scratch[ALG_SPECIFIC_SIZE];
void harness(void)
{
  static const char setting[] = SETTING_STR;
  out[0] = '*'; out[1] = '0'; out[2] = 0;
  errno = 0;
  METHOD_FN("pw", 2, setting, sizeof setting - 1, (uint8_t *)out, sizeof out, scratch, sizeof scratch);
  int e = errno;
  VF_ASSERT(vf_local_live == 0, "C15: no local region is still held when the method returns (nothing leaks)");
  VF_ASSERT(vf_free_calls == (vf_init_calls == 1 && !vf_init_failed ? 1u : 0u), "C15: free_local is called exactly once per successful init_local");
  if (vf_init_failed || vf_r_failed || vf_free_failed) {
    VF_ASSERT(out[0] == '*' && out[1] == '0' && out[2] == 0, "C15: an allocation/mapping failure never yields a hash");
    VF_ASSERT(e != 0, "C15: an allocation/mapping failure sets errno");
    if (vf_free_failed && !vf_r_failed) VF_WITNESS("munmap failure after a good hash");
    if (vf_init_failed) VF_WITNESS("init failure");
    if (vf_r_failed) VF_WITNESS("kdf failure");
  } else {
    VF_ASSERT(out[0] == '$', "C15: without faults the method succeeds");
    VF_WITNESS("no fault");
  }
}
