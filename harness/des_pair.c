/* C19: the DES-family entry a configuration dispatches to computes the same
   hashes as the full build's entry.  A_* is crypt-des.c compiled for the
   configuration (renamed after preprocessing), B_* for the full build; the DES
   core is a functional model (models/des_uf.c), so equal outputs mean the two
   builds feed the core identically.
   PAIR 1: A = crypt_bigcrypt_rn of a build with bigcrypt but without descrypt
   PAIR 2: A = crypt_descrypt_rn of a build with descrypt but without bigcrypt
   B = crypt_bigcrypt_rn of the full build (first "" entry of the table).  */
#include "crypt-port.h"
#include <errno.h>
#include "vf.h"

extern void A_ENTRY(const char *, size_t, const char *, size_t, uint8_t *, size_t, void *, size_t);
extern void B_ENTRY(const char *, size_t, const char *, size_t, uint8_t *, size_t, void *, size_t);

size_t in_plen, in_slen;
char in_phrase[MAX_P + 4], in_setting[MAX_S + 1];
static int des_ch(char c){return (c>='a'&&c<='z')||(c>='A'&&c<='Z')||(c>='0'&&c<='9')||c=='.'||c=='/';}

void harness(void)
{
  in_plen = nondet_size_t(); in_slen = nondet_size_t();
  __CPROVER_assume(in_plen <= MAX_P && in_slen <= MAX_S && in_slen >= 2);
  /* the phrase is followed by arbitrary bytes after its NUL (a reused buffer) */
  for (size_t i = 0; i < MAX_P + 4; i++) in_phrase[i] = nondet_char();
  for (size_t i = 0; i < MAX_P; i++) if (i < in_plen) __CPROVER_assume(in_phrase[i] != 0);
  in_phrase[in_plen] = 0;
  for (size_t i = 0; i < MAX_S; i++) { in_setting[i] = nondet_char(); if (i < in_slen) __CPROVER_assume(in_setting[i] > 0x20 && in_setting[i] < 0x7f); }
  in_setting[in_slen] = 0;
  __CPROVER_assume(des_ch(in_setting[0]) && des_ch(in_setting[1]));

  static uint8_t oa[CRYPT_OUTPUT_SIZE], ob[CRYPT_OUTPUT_SIZE];
  static _Alignas(16) unsigned char sa[ALG_SPECIFIC_SIZE], sb[ALG_SPECIFIC_SIZE];
  oa[0] = ob[0] = '*'; oa[1] = ob[1] = '0'; oa[2] = ob[2] = 0;
  errno = 0;
  A_ENTRY(in_phrase, in_plen, in_setting, in_slen, oa, sizeof oa, sa, sizeof sa);
  int ea = errno;
  errno = 0;
  B_ENTRY(in_phrase, in_plen, in_setting, in_slen, ob, sizeof ob, sb, sizeof sb);
  int eb = errno;
#if PAIR == 1
  if (in_plen > 8 && in_slen <= 13) {
    VF_ASSERT(oa[0] == '*' && ea == EINVAL, "C19: bigcrypt without descrypt refuses a long phrase with a short setting");
    VF_WITNESS("documented refusal");
  } else
#else
  if (in_plen <= 8 || in_slen <= 13)
#endif
  {
    _Bool same = 1;
    for (size_t i = 0; i < 180; i++) if (oa[i] != ob[i]) same = 0;
    VF_ASSERT(same, "C19: the enabled DES-family method computes the same hash as in the full build");
    VF_ASSERT(ea == eb, "C19: and reports the same errno");
    if (oa[0] != '*') VF_WITNESS("both hash");
  }
}
