/* C09b: the digest primitives erase their context when finalised.  Real
   alg-*.c; the context is arbitrary (symbolic); after Final every byte of the
   context object is zero.  (The compression function does not burden the solver:
   the assertion depends only on the trailing explicit_bzero.)  */
#include "crypt-port.h"
#include "alg-md4.h"
#include "alg-md5.h"
#include "alg-sha1.h"
#include "alg-sha256.h"
#include "alg-sha512.h"
#include "vf.h"

#define ZERO_CHECK(obj, what) do { const unsigned char *p_ = (const unsigned char *)&(obj); \
  for (size_t i_ = 0; i_ < sizeof(obj); i_++) VF_ASSERT(p_[i_] == 0, what); } while (0)
#define HAVOC(obj) do { unsigned char *p_ = (unsigned char *)&(obj); for (size_t i_ = 0; i_ < sizeof(obj); i_++) p_[i_] = nondet_uchar(); } while (0)

void harness(void)
{
  uint8_t dg[64];
#if defined W_MD5
  MD5_CTX c; HAVOC(c); MD5_Final(dg, &c); ZERO_CHECK(c, "C09: MD5_Final erases its context");
#elif defined W_MD4
  MD4_CTX c; HAVOC(c); MD4_Final(dg, &c); ZERO_CHECK(c, "C09: MD4_Final erases its context");
#elif defined W_SHA1
  struct sha1_ctx c; HAVOC(c);
  /* buffer fill level fixed at 55 bytes (one padding byte needed): the byte-by-byte
     padding loop otherwise has a symbolic trip count of up to 64 */
  c.count[0] = (c.count[0] & ~504u) | 440u;
  sha1_finish_ctx(&c, dg); ZERO_CHECK(c, "C09: sha1_finish_ctx erases its context");
#elif defined W_SHA256
  SHA256_CTX c; HAVOC(c); SHA256_Final(dg, &c); ZERO_CHECK(c, "C09: SHA256_Final erases its context");
#elif defined W_SHA512
  SHA512_CTX c; HAVOC(c); SHA512_Final(dg, &c); ZERO_CHECK(c, "C09: SHA512_Final erases its context");
#elif defined W_HMAC_SHA256
  HMAC_SHA256_CTX c; HAVOC(c); HMAC_SHA256_Final(dg, &c); ZERO_CHECK(c, "C09: HMAC_SHA256_Final erases its context");
#endif
  VF_WITNESS("final returned");
}
