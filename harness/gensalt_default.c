/* C18/C10: crypt_gensalt_rn(NULL, ...) produces exactly what it produces for
   crypt_preferred_method(); same symbolic count and random bytes.  */
#include "crypt-port.h"
#include <errno.h>
#include "vf.h"
unsigned long in_count;
int in_nrbytes;
unsigned char in_rbytes[MAX_RB];
void harness(void)
{
  in_count = nondet_ulong();
  in_nrbytes = nondet_int();
  __CPROVER_assume(in_nrbytes >= 0 && in_nrbytes <= MAX_RB);
  static char rb[MAX_RB];
  for (int i = 0; i < MAX_RB; i++) { in_rbytes[i] = nondet_uchar(); rb[i] = (char)in_rbytes[i]; }
  static char o1[CRYPT_GENSALT_OUTPUT_SIZE], o2[CRYPT_GENSALT_OUTPUT_SIZE];
  const char *pm = crypt_preferred_method();
  errno = 0;
  char *r1 = crypt_gensalt_rn(0, in_count, rb, in_nrbytes, o1, sizeof o1);
  int e1 = errno;
  errno = 0;
  char *r2 = pm ? crypt_gensalt_rn(pm, in_count, rb, in_nrbytes, o2, sizeof o2) : 0;
  int e2 = pm ? errno : EINVAL;
  VF_ASSERT((r1 != 0) == (r2 != 0), "C18: NULL prefix and preferred method succeed or fail together");
  VF_ASSERT(e1 == e2, "C18: NULL prefix and preferred method report the same errno");
  if (r1 && r2) {
    for (size_t i = 0; i < sizeof o1; i++)
      VF_ASSERT(o1[i] == o2[i], "C18: crypt_gensalt(NULL) equals crypt_gensalt(crypt_preferred_method())");
    VF_WITNESS("both succeed");
  }
  if (!r1) VF_WITNESS("both fail");
}
