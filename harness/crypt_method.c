/* Method harness: one real crypt_<m>_rn, kernels replaced by models, called the
   way do_crypt calls it (output = the 384-byte field inside a struct
   crypt_data whose other fields are arbitrary and must not change).
   Serves C04 (safety, write confinement), C05 (method half: error => token
   intact), C06 (shape), C09 (no residue in output).

   -DMETHOD_FN=crypt_xxx_rn -DPREFIX_STR="..." -DMAX_S=n -DMAX_P=n
   -DHASH_LEN=n -DHASH_ALPHA=0|1 -DSEP_DOLLAR=0|1
   -DSETTING_AT_BASE: the setting starts its object (long settings);
   default: exact-fit, the NUL is the last byte of the object.  */
#include "crypt-port.h"
#include <errno.h>
#include <stdlib.h>
#include "vf.h"

#define PLEN (sizeof(PREFIX_STR) - 1)
#define SCAP (PLEN + MAX_S + 1)

extern void METHOD_FN(const char *, size_t, const char *, size_t, uint8_t *, size_t, void *, size_t);
/* static helpers of crypt.c, exported by goto-cc --export-file-local-symbols */
struct hashfn;
extern int __CPROVER_file_local_crypt_c_check_badsalt_chars(const char *);
extern const struct hashfn *__CPROVER_file_local_crypt_c_get_hashfn(const char *);

/* The caller's object as the method sees it: the 384-byte output field followed
   by the application-owned fields (same layout as the head of struct crypt_data,
   so an overflow of output lands in setting exactly as in the real object).  The
   scratch area is a separate aligned object of the real size (the 30 KB internal
   array inside a 32 KB struct makes CBMC's byte-update lowering recurse ~23000
   frames deep and crash).  */
struct vf_data
{
  char output[CRYPT_OUTPUT_SIZE];
  char setting[CRYPT_OUTPUT_SIZE];
  char input[CRYPT_MAX_PASSPHRASE_SIZE];
  char reserved[CRYPT_DATA_RESERVED_SIZE];
  char initialized;
};
struct vf_data nondet_vf_data(void);
static _Alignas(16) unsigned char vf_scratch[ALG_SPECIFIC_SIZE];

size_t in_plen, in_slen;
char in_phrase[MAX_P + 1];
char in_setting[SCAP];          /* the whole setting incl. prefix, at its placement */
static struct vf_data cd, cd0;

static int okchar(unsigned char c)
{
  return c > 0x20 && c < 0x7f && c != ':' && c != ';' && c != '*' && c != '!' && c != '\\';
}

#ifdef VF_DES_CH
static int des_ch(char c){return (c>='a'&&c<='z')||(c>='A'&&c<='Z')||(c>='0'&&c<='9')||c=='.'||c=='/';}
#endif

static int alpha_ok(unsigned char c)
{
#if HASH_ALPHA == 1
  return (c >= '0' && c <= '9') || (c >= 'a' && c <= 'f');
#else
  return (c >= 'a' && c <= 'z') || (c >= 'A' && c <= 'Z') || (c >= '0' && c <= '9') || c == '.' || c == '/';
#endif
}

void harness(void)
{
  in_plen = nondet_size_t();
  in_slen = nondet_size_t();
  __CPROVER_assume(in_plen <= MAX_P);
  __CPROVER_assume(in_slen <= MAX_S);

  /* phrase: exact fit (NUL is the last byte of the object), arbitrary non-NUL bytes */
  for (size_t i = 0; i < MAX_P; i++) { in_phrase[i] = nondet_char(); __CPROVER_assume(in_phrase[i] != 0); }
  in_phrase[MAX_P] = 0;
  const char *phrase = in_phrase + (MAX_P - in_plen);

  /* setting = PREFIX_STR + in_slen arbitrary passwd-safe bytes (what do_crypt
     lets through check_badsalt_chars) */
  size_t set_size = PLEN + in_slen;
#ifdef SETTING_AT_BASE
  size_t off = 0;
#else
  size_t off = MAX_S - in_slen;
#endif
  for (size_t i = 0; i < SCAP; i++) in_setting[i] = nondet_char();
  for (size_t j = 0; j < PLEN; j++) __CPROVER_assume(in_setting[off + j] == PREFIX_STR[j]);
  for (size_t j = 0; j < MAX_S; j++)
    if (j < in_slen) __CPROVER_assume(okchar((unsigned char)in_setting[off + PLEN + j]));
  __CPROVER_assume(in_setting[off + set_size] == 0);
  const char *setting = in_setting + off;
#ifdef SETTING_PRECOND
  SETTING_PRECOND
#endif

  /* the data object: arbitrary, except that do_crypt's callers have already
     stored the failure token in output */
  cd = nondet_vf_data();
  cd.output[0] = '*';
  __CPROVER_assume(cd.output[1] == '0' || cd.output[1] == '1');
  cd.output[2] = 0;
  cd0 = cd;

  errno = 0;
  METHOD_FN(phrase, in_plen, setting, set_size, (uint8_t *)cd.output, sizeof cd.output,
            vf_scratch, sizeof vf_scratch);
  int e = errno;

  /* C04: write confinement */
  for (size_t i = 0; i < sizeof cd.setting; i++)
    VF_ASSERT(cd.setting[i] == cd0.setting[i], "C04: application-owned setting field unchanged");
  for (size_t i = 0; i < sizeof cd.input; i++)
    VF_ASSERT(cd.input[i] == cd0.input[i], "C04: application-owned input field unchanged");
  for (size_t i = 0; i < sizeof cd.reserved; i++)
    VF_ASSERT(cd.reserved[i] == cd0.reserved[i], "C04: method does not touch reserved");
  VF_ASSERT(cd.initialized == cd0.initialized, "C04: method does not touch initialized");

  if (cd.output[0] == '*') {
    /* failure */
    VF_ASSERT(e == EINVAL || e == ERANGE || e == ENOMEM, "C05: failing method sets errno to EINVAL, ERANGE or ENOMEM");
    for (size_t i = 0; i < sizeof cd.output; i++)
      VF_ASSERT(cd.output[i] == cd0.output[i], "C05: failing method leaves the output (failure token) untouched");
    VF_WITNESS("method failure");
  } else {
    size_t n = sizeof cd.output;
    _Bool seen = 0;
    for (size_t i = 0; i < sizeof cd.output; i++) {
      if (!seen) {
        if (cd.output[i] == 0) { seen = 1; n = i; }
        else VF_ASSERT(okchar((unsigned char)cd.output[i]), "C06: hash is printable passwd(5)-safe ASCII");
      } else {
        VF_ASSERT(cd.output[i] == 0 || cd.output[i] == cd0.output[i], "C09: nothing but the result (and zero fill) is left in output");
      }
    }
    VF_ASSERT(seen, "C04: result NUL-terminated inside the 384-byte output field");
    VF_ASSERT(n >= PLEN + HASH_LEN, "C06: result has prefix and a full-length digest");
    for (size_t j = 0; j < PLEN; j++)
      VF_ASSERT(cd.output[j] == PREFIX_STR[j], "C06: hash begins with the method prefix of the setting");
    /* digest: the last HASH_LEN characters, from the method's alphabet */
    for (size_t i = 0; i < sizeof cd.output; i++)
      if (i < n && i + HASH_LEN >= n)
        VF_ASSERT(alpha_ok((unsigned char)cd.output[i]), "C06: digest characters are from the method's alphabet");
#if SEP_DOLLAR
    VF_ASSERT(n > HASH_LEN && cd.output[n - HASH_LEN - 1] == '$', "C06: digest is preceded by '$'");
#endif
#ifdef SHAPE_CHECK
    SHAPE_CHECK
#endif
    /* accepted as a setting, selecting the same method */
    VF_ASSERT(!__CPROVER_file_local_crypt_c_check_badsalt_chars(cd.output), "C06: hash passes the generic setting filter");
    VF_ASSERT(__CPROVER_file_local_crypt_c_get_hashfn(cd.output) != 0 &&
              __CPROVER_file_local_crypt_c_get_hashfn(cd.output) ==
              __CPROVER_file_local_crypt_c_get_hashfn(setting), "C06: hash selects the same method as the setting");
    VF_WITNESS("method success");
  }
}
