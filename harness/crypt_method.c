/* Method harness: one real crypt_<m>_rn, kernels replaced by models, called the
   way do_crypt calls it (output = the 384-byte field inside a struct
   crypt_data whose other fields are arbitrary and must not change).
   Serves C04 (safety, write confinement), C05 (method half: error => token
   intact), C06 (shape), C09 (no residue in output).

   -DMETHOD_FN=crypt_xxx_rn -DPREFIX_STR="..." -DMAX_S=n -DMAX_P=n
   -DHASH_LEN=n -DHASH_ALPHA=0|1 -DSEP_DOLLAR=0|1
   -DSETTING_AT_BASE: the setting starts its object (long settings);
   default: exact-fit, the NUL is the last byte of the object.  */
#include "crypt-port.h"
#include <errno.h>
#include <stdlib.h>
#include "vf.h"

#define PLEN (sizeof(PREFIX_STR) - 1)
#define SCAP (PLEN + MAX_S + 1)

extern void METHOD_FN(const char *, size_t, const char *, size_t, uint8_t *, size_t, void *, size_t);
/* static helpers of crypt.c, exported by goto-cc --export-file-local-symbols */
struct hashfn;
extern int __CPROVER_file_local_crypt_c_check_badsalt_chars(const char *);
extern const struct hashfn *__CPROVER_file_local_crypt_c_get_hashfn(const char *);

/* The method receives exactly two writable objects, as from do_crypt: the
   384-byte output field and the scratch area.  They are modelled as two
   separate objects of the real sizes, so *any* write outside them - into the
   application-owned setting/input fields that follow output in struct
   crypt_data, or anywhere else - is an out-of-object access that CBMC's pointer
   checks report (this is how the sha1crypt overflow F1 shows up).  Embedding
   them in one 32 KB struct makes CBMC lower every byte write over the whole
   struct (11M clauses, and a 23000-frame recursion crash with the real type). */
static char vf_output[CRYPT_OUTPUT_SIZE], vf_output0[CRYPT_OUTPUT_SIZE];
#ifndef SCR_SIZE
#define SCR_SIZE ALG_SPECIFIC_SIZE
#endif
/* SCR_SIZE < ALG_SPECIFIC_SIZE only for the yescrypt family (whose wrappers do
   symbolic-length copies inside the scratch object: 8 KB made each of them a
   whole-object update); it is still larger than the method's own scratch struct,
   which is all the method compares it with */
static _Alignas(16) unsigned char vf_scratch[SCR_SIZE];

size_t in_plen, in_slen;
char in_phrase[MAX_P + 1];
char in_setting[SCAP];          /* the whole setting incl. prefix, at its placement */

static int okchar(unsigned char c)
{
  return c > 0x20 && c < 0x7f && c != ':' && c != ';' && c != '*' && c != '!' && c != '\\';
}

#ifdef VF_DES_CH
static int des_ch(char c){return (c>='a'&&c<='z')||(c>='A'&&c<='Z')||(c>='0'&&c<='9')||c=='.'||c=='/';}
#endif

static int alpha_ok(unsigned char c)
{
#if HASH_ALPHA == 1
  return (c >= '0' && c <= '9') || (c >= 'a' && c <= 'f');
#else
  return (c >= 'a' && c <= 'z') || (c >= 'A' && c <= 'Z') || (c >= '0' && c <= '9') || c == '.' || c == '/';
#endif
}

void harness(void)
{
  in_plen = nondet_size_t();
  in_slen = nondet_size_t();
  __CPROVER_assume(in_plen <= MAX_P);
  __CPROVER_assume(in_slen <= MAX_S);
#ifdef FIX_SLEN
  /* long settings: the length is fixed per query (contents stay symbolic), which
     makes every scan over the setting a concrete-trip-count loop */
  in_slen = FIX_SLEN;
#endif

  /* phrase: exact fit (NUL is the last byte of the object), arbitrary non-NUL bytes */
  for (size_t i = 0; i < MAX_P; i++) { in_phrase[i] = nondet_char(); __CPROVER_assume(in_phrase[i] != 0); }
  in_phrase[MAX_P] = 0;
  const char *phrase = in_phrase + (MAX_P - in_plen);

  /* setting = PREFIX_STR + in_slen arbitrary passwd-safe bytes (what do_crypt
     lets through check_badsalt_chars) */
  size_t set_size = PLEN + in_slen;
#ifdef SETTING_AT_BASE
  size_t off = 0;
#else
  size_t off = MAX_S - in_slen;
#endif
  for (size_t i = 0; i < SCAP; i++) in_setting[i] = nondet_char();
  for (size_t j = 0; j < PLEN; j++) __CPROVER_assume(in_setting[off + j] == PREFIX_STR[j]);
  for (size_t j = 0; j < MAX_S; j++)
    if (j < in_slen) __CPROVER_assume(okchar((unsigned char)in_setting[off + PLEN + j]));
#ifdef LONG_FILL
  /* long settings: all but the last two tail characters are the constant 'a' (what
     matters at these lengths is the length arithmetic, not the salt's content);
     the str* scans then fold to constants */
  for (size_t j = 0; j + 2 < MAX_S; j++) if (j + 2 < in_slen) in_setting[off + PLEN + j] = 'a';
#endif
  __CPROVER_assume(in_setting[off + set_size] == 0);
  const char *setting = in_setting + off;
#ifdef SETTING_PRECOND
  SETTING_PRECOND
#endif
#ifdef NOT_ROUNDS
  /* case split: this query covers settings whose tail does not begin with
     "rounds=" (the rounds= spellings have their own query with that prefix fixed) */
  {
    const char *t = setting + PLEN;
    __CPROVER_assume(!(in_slen >= 7 && t[0] == 'r' && t[1] == 'o' && t[2] == 'u' && t[3] == 'n' &&
                       t[4] == 'd' && t[5] == 's' && t[6] == '='));
  }
#endif

  /* arbitrary prior contents (previous result, garbage), except that do_crypt's
     callers have already stored the failure token in output */
  for (size_t i = 0; i < sizeof vf_output; i++) vf_output[i] = nondet_char();
  vf_output[0] = '*';
  __CPROVER_assume(vf_output[1] == '0' || vf_output[1] == '1');
  vf_output[2] = 0;
  for (size_t i = 0; i < sizeof vf_output; i++) vf_output0[i] = vf_output[i];
#ifdef SCRATCH_NONDET
  for (size_t i = 0; i < SCRATCH_NONDET; i++) vf_scratch[i] = nondet_uchar();
#endif

#ifdef SYM_OUT_SIZE
  /* Methods whose result grows with the setting (sunmd5, scrypt, yescrypt) guard it with
     a comparison that is linear in out_size and the setting length.  do_crypt only ever
     passes 384, where the boundary needs 340+-character settings (no verdict in 25
     minutes); the same comparison is exercised here at every out_size <= OSIZE_CAP with
     short settings: the buffer starts a small object with arbitrary contents and any
     byte at or beyond out_size must keep its value.  (Not applied to fixed-length
     results: crypt_nt_rn's own guard is one short, which the API cannot reach.)  */
#ifndef OSIZE_CAP
#define OSIZE_CAP 64
#endif
  static char vf_small[OSIZE_CAP], vf_small0[OSIZE_CAP];
  size_t in_osize = nondet_size_t();
  __CPROVER_assume(in_osize >= 3 && in_osize <= OSIZE_CAP);
  for (size_t i = 0; i < OSIZE_CAP; i++) vf_small[i] = nondet_char();
  vf_small[0] = '*'; vf_small[1] = '0'; vf_small[2] = 0;
  for (size_t i = 0; i < OSIZE_CAP; i++) vf_small0[i] = vf_small[i];
  errno = 0;
  METHOD_FN(phrase, in_plen, setting, set_size, (uint8_t *)vf_small, in_osize, vf_scratch, sizeof vf_scratch);
  for (size_t i = 0; i < OSIZE_CAP; i++)
    if (i >= in_osize) VF_ASSERT(vf_small[i] == vf_small0[i], "C04: the method writes nothing at or beyond out_size");
  if (vf_small[0] != '*') {
    _Bool term = 0;
    for (size_t i = 0; i < OSIZE_CAP; i++) if (i < in_osize && vf_small[i] == 0) term = 1;
    VF_ASSERT(term, "C04: result NUL-terminated inside out_size");
    VF_WITNESS("success at symbolic out_size");
  } else {
    VF_ASSERT(errno != 0, "C05: refusal for lack of space sets errno");
    VF_WITNESS("refused at symbolic out_size");
  }
#else
  errno = 0;
  METHOD_FN(phrase, in_plen, setting, set_size, (uint8_t *)vf_output, sizeof vf_output,
            vf_scratch, sizeof vf_scratch);
  int e = errno;

  if (vf_output[0] == '*') {
    /* failure */
    VF_ASSERT(e == EINVAL || e == ERANGE || e == ENOMEM, "C05: failing method sets errno to EINVAL, ERANGE or ENOMEM");
    for (size_t i = 0; i < sizeof vf_output; i++)
      VF_ASSERT(vf_output[i] == vf_output0[i], "C05: failing method leaves the output (failure token) untouched");
#ifndef EXPECT_NO_FAILURE
    VF_WITNESS("method failure");
#endif
  } else {
    size_t n = sizeof vf_output;
    _Bool seen = 0;
    for (size_t i = 0; i < sizeof vf_output; i++) {
      if (!seen) {
        if (vf_output[i] == 0) { seen = 1; n = i; }
        else VF_ASSERT(okchar((unsigned char)vf_output[i]), "C06: hash is printable passwd(5)-safe ASCII");
      } else {
        VF_ASSERT(vf_output[i] == 0 || vf_output[i] == vf_output0[i], "C09: nothing but the result (and zero fill) is left in output");
      }
    }
    VF_ASSERT(seen, "C04: result NUL-terminated inside the 384-byte output field");
    VF_ASSERT(n < OUT_BOUND, "C06: result is not longer than setting + digest (no residue of an earlier, longer result appended)");
    VF_ASSERT(n >= PLEN + HASH_LEN, "C06: result has prefix and a full-length digest");
    for (size_t j = 0; j < PLEN; j++)
      VF_ASSERT(vf_output[j] == PREFIX_STR[j], "C06: hash begins with the method prefix of the setting");
    /* digest: the last HASH_LEN characters, from the method's alphabet */
    for (size_t i = 0; i < sizeof vf_output; i++)
      if (i < n && i + HASH_LEN >= n)
        VF_ASSERT(alpha_ok((unsigned char)vf_output[i]), "C06: digest characters are from the method's alphabet");
#if SEP_DOLLAR
    VF_ASSERT(n > HASH_LEN && vf_output[n - HASH_LEN - 1] == '$', "C06: digest is preceded by '$'");
#endif
#ifdef SHAPE_CHECK
    SHAPE_CHECK
#endif
#ifdef MUST_REJECT
    /* malformed parameters must be refused (C05): method-specific predicate over the setting */
    { _Bool bad = 0; MUST_REJECT VF_ASSERT(!bad, "C05: a setting with malformed parameters or salt is refused, not hashed"); }
#endif
    /* accepted as a setting, selecting the same method (only scanned when the result is a
       terminated string of plausible length: a missing NUL is reported above, not as a loop bound) */
    if (seen && n < OUT_BOUND)
    VF_ASSERT(!__CPROVER_file_local_crypt_c_check_badsalt_chars(vf_output), "C06: hash passes the generic setting filter");
    if (seen && n < OUT_BOUND)
    VF_ASSERT(__CPROVER_file_local_crypt_c_get_hashfn(vf_output) != 0 &&
              __CPROVER_file_local_crypt_c_get_hashfn(vf_output) ==
              __CPROVER_file_local_crypt_c_get_hashfn(setting), "C06: hash selects the same method as the setting");
    VF_WITNESS("method success");
  }
#endif /* SYM_OUT_SIZE */
}
