/* C02 layer 1: the method's structure (which bytes are fed to the primitive in
   which order, parameter decoding, output encoding) against a short transcription
   of the published algorithm, both over the same uninterpreted primitive.
   R_DESCRYPT: traditional crypt(3) (V7 / FIPS-DES based): key = first 8 phrase bytes
     << 1, zero padded; 12-bit salt from two ./0-9A-Za-z characters (little end
     first); 25 salted DES encryptions of the zero block; output = salt + 11
     characters, 6 bits at a time from the most significant end, last group padded.
   R_NT: NT hash: MD4 of the UCS-2LE expansion, 32 lower-case hex digits after "$3$$". */
#include "crypt-port.h"
#include <errno.h>
#include "alg-des.h"
#include "alg-md4.h"
#include "vf.h"
extern void METHOD_FN(const char *, size_t, const char *, size_t, uint8_t *, size_t, void *, size_t);
static const char A64[] = "./0123456789ABCDEFGHIJKLMNOPQRSTUVWXYZabcdefghijklmnopqrstuvwxyz";
static int a64i(char c)
{
  if (c == '.') return 0; if (c == '/') return 1;
  if (c >= '0' && c <= '9') return 2 + (c - '0');
  if (c >= 'A' && c <= 'Z') return 12 + (c - 'A');
  if (c >= 'a' && c <= 'z') return 38 + (c - 'a');
  return -1;
}
size_t in_plen;
char in_phrase[MAX_P + 1], in_setting[16];
static char out[CRYPT_OUTPUT_SIZE], want[64];
static _Alignas(16) unsigned char scratch[1536];

void harness(void)
{
  in_plen = nondet_size_t(); __CPROVER_assume(in_plen <= MAX_P);
  for (size_t i = 0; i < MAX_P; i++) { in_phrase[i] = nondet_char(); if (i < in_plen) __CPROVER_assume(in_phrase[i] != 0); else in_phrase[i] = 0; }
  in_phrase[MAX_P] = 0;
#ifdef R_DESCRYPT
  in_setting[0] = nondet_char(); in_setting[1] = nondet_char(); in_setting[2] = 0;
  __CPROVER_assume(a64i(in_setting[0]) >= 0 && a64i(in_setting[1]) >= 0);
  size_t slen = 2;
  /* reference */
  struct des_ctx rc;
  unsigned char key[8], blk[8], zero[8];
  for (int i = 0; i < 8; i++) { key[i] = (size_t)i < in_plen ? (unsigned char)((unsigned char)in_phrase[i] << 1) : 0; zero[i] = 0; }
  uint32_t salt = (uint32_t)a64i(in_setting[0]) | ((uint32_t)a64i(in_setting[1]) << 6);
  des_set_key(&rc, key); des_set_salt(&rc, salt); des_crypt_block(&rc, blk, zero, 25, 0);
  want[0] = in_setting[0]; want[1] = in_setting[1];
  uint64_t v = 0; for (int i = 0; i < 8; i++) v = (v << 8) | blk[i];
  for (int i = 0; i < 11; i++) {                      /* 64 bits + 2 zero bits, 6 at a time from the top */
    unsigned six = i < 10 ? (unsigned)(v >> (58 - 6 * i)) & 0x3f : (unsigned)(v << 2) & 0x3f;
    want[2 + i] = A64[six];
  }
  want[13] = 0;
  size_t wlen = 13;
#endif
#ifdef R_NT
  in_setting[0] = '$'; in_setting[1] = '3'; in_setting[2] = '$'; in_setting[3] = 0;
  size_t slen = 3;
  MD4_CTX c; unsigned char u[2 * MAX_P + 2], dg[16];
  for (size_t i = 0; i < MAX_P; i++) { u[2 * i] = (unsigned char)in_phrase[i]; u[2 * i + 1] = 0; }
  MD4_Init(&c); MD4_Update(&c, u, 2 * in_plen); MD4_Final(dg, &c);
  want[0] = '$'; want[1] = '3'; want[2] = '$'; want[3] = '$';
  for (int i = 0; i < 16; i++) { want[4 + 2 * i] = "0123456789abcdef"[dg[i] >> 4]; want[5 + 2 * i] = "0123456789abcdef"[dg[i] & 15]; }
  want[36] = 0;
  size_t wlen = 36;
#endif
  out[0] = '*'; out[1] = '0'; out[2] = 0;
  METHOD_FN(in_phrase, in_plen, in_setting, slen, (uint8_t *)out, sizeof out, scratch, sizeof scratch);
  VF_ASSERT(out[0] != '*', "C02: the method accepts the setting");
  for (size_t i = 0; i < 40; i++) if (i <= wlen) VF_ASSERT(out[i] == want[i], "C02: hash equals the transcription of the published algorithm over the same primitive");
  VF_WITNESS("reference compared");
}
