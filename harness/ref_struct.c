/* C02 layer 1: the method's structure (which bytes are fed to the primitive in
   which order, parameter decoding, output encoding) against a short transcription
   of the published algorithm, both over the same uninterpreted primitive.
   R_DESCRYPT: traditional crypt(3) (V7 / FIPS-DES based): key = first 8 phrase bytes
     << 1, zero padded; 12-bit salt from two ./0-9A-Za-z characters (little end
     first); 25 salted DES encryptions of the zero block; output = salt + 11
     characters, 6 bits at a time from the most significant end, last group padded.
   R_NT: NT hash: MD4 of the UCS-2LE expansion, 32 lower-case hex digits after "$3$$".
   R_MD5CRYPT: Poul-Henning Kamp's md5crypt (FreeBSD crypt-md5.c), transcribed: alternate
     sum MD5(pw salt pw); main sum MD5(pw "$1$" salt, alternate bytes for len(pw), then for
     each bit of len(pw): NUL if set else pw[0]); 1000 rounds mixing pw / salt / previous
     (cut after the same number of rounds as the code under test: ROUNDS_CUT); output
     permutation 0-6-12, 1-7-13, 2-8-14, 3-9-15, 4-10-5, 11.  Lengths are fixed per query.
   R_SHA1CRYPT: NetBSD crypt-sha1: HMAC-SHA1 keyed with the passphrase over
     salt "$sha1$" iterations, re-applied iterations-1 times (cut: ROUNDS_CUT), 28-character
     encoding of 20 bytes with the wrap-around of byte 0. */
#include "crypt-port.h"
#include <errno.h>
#include "alg-des.h"
#include "alg-md4.h"
#include "alg-md5.h"
#include "alg-hmac-sha1.h"
#include "vf.h"
extern void METHOD_FN(const char *, size_t, const char *, size_t, uint8_t *, size_t, void *, size_t);
static const char A64[] = "./0123456789ABCDEFGHIJKLMNOPQRSTUVWXYZabcdefghijklmnopqrstuvwxyz";
static int a64i(char c)
{
  if (c == '.') return 0; if (c == '/') return 1;
  if (c >= '0' && c <= '9') return 2 + (c - '0');
  if (c >= 'A' && c <= 'Z') return 12 + (c - 'A');
  if (c >= 'a' && c <= 'z') return 38 + (c - 'a');
  return -1;
}
size_t in_plen;
char in_phrase[MAX_P + 1], in_setting[48];
#if defined R_MD5CRYPT || defined R_SHA1CRYPT
static char *to64r(char *s, unsigned long v, int n) { while (--n >= 0) { *s++ = A64[v & 0x3f]; v >>= 6; } return s; }
#endif
static char out[CRYPT_OUTPUT_SIZE], want[96];
static _Alignas(16) unsigned char scratch[1536];

void harness(void)
{
  in_plen = nondet_size_t(); __CPROVER_assume(in_plen <= MAX_P);
  for (size_t i = 0; i < MAX_P; i++) { in_phrase[i] = nondet_char(); if (i < in_plen) __CPROVER_assume(in_phrase[i] != 0); else in_phrase[i] = 0; }
  in_phrase[MAX_P] = 0;
#ifdef R_DESCRYPT
  in_setting[0] = nondet_char(); in_setting[1] = nondet_char(); in_setting[2] = 0;
  __CPROVER_assume(a64i(in_setting[0]) >= 0 && a64i(in_setting[1]) >= 0);
  size_t slen = 2;
  /* reference */
  struct des_ctx rc;
  unsigned char key[8], blk[8], zero[8];
  for (int i = 0; i < 8; i++) { key[i] = (size_t)i < in_plen ? (unsigned char)((unsigned char)in_phrase[i] << 1) : 0; zero[i] = 0; }
  uint32_t salt = (uint32_t)a64i(in_setting[0]) | ((uint32_t)a64i(in_setting[1]) << 6);
  des_set_key(&rc, key); des_set_salt(&rc, salt); des_crypt_block(&rc, blk, zero, 25, 0);
  want[0] = in_setting[0]; want[1] = in_setting[1];
  uint64_t v = 0; for (int i = 0; i < 8; i++) v = (v << 8) | blk[i];
  for (int i = 0; i < 11; i++) {                      /* 64 bits + 2 zero bits, 6 at a time from the top */
    unsigned six = i < 10 ? (unsigned)(v >> (58 - 6 * i)) & 0x3f : (unsigned)(v << 2) & 0x3f;
    want[2 + i] = A64[six];
  }
  want[13] = 0;
  size_t wlen = 13;
#endif
#ifdef R_NT
  in_setting[0] = '$'; in_setting[1] = '3'; in_setting[2] = '$'; in_setting[3] = 0;
  size_t slen = 3;
  MD4_CTX c; unsigned char u[2 * MAX_P + 2], dg[16];
  for (size_t i = 0; i < MAX_P; i++) { u[2 * i] = (unsigned char)in_phrase[i]; u[2 * i + 1] = 0; }
  MD4_Init(&c); MD4_Update(&c, u, 2 * in_plen); MD4_Final(dg, &c);
  want[0] = '$'; want[1] = '3'; want[2] = '$'; want[3] = '$';
  for (int i = 0; i < 16; i++) { want[4 + 2 * i] = "0123456789abcdef"[dg[i] >> 4]; want[5 + 2 * i] = "0123456789abcdef"[dg[i] & 15]; }
  want[36] = 0;
  size_t wlen = 36;
#endif
#ifdef R_MD5CRYPT
  in_plen = FIX_PLEN;
  size_t sl = FIX_SLEN, slen = 3 + sl;
  in_setting[0] = '$'; in_setting[1] = '1'; in_setting[2] = '$';
  for (size_t i = 0; i < sl; i++) { in_setting[3 + i] = nondet_char(); __CPROVER_assume(a64i(in_setting[3 + i]) >= 0); }
  in_setting[3 + sl] = 0;
  const char *pw = in_phrase, *sp = in_setting + 3;
  if (sl > 8) sl = 8;                       /* "the salt ... is at most 8 characters" */
  MD5_CTX c, c1; unsigned char fin[16];
  MD5_Init(&c1); MD5_Update(&c1, pw, in_plen); MD5_Update(&c1, sp, sl); MD5_Update(&c1, pw, in_plen); MD5_Final(fin, &c1);
  MD5_Init(&c); MD5_Update(&c, pw, in_plen); MD5_Update(&c, "$1$", 3); MD5_Update(&c, sp, sl);
  for (size_t pl = in_plen; pl > 0; pl = pl > 16 ? pl - 16 : 0) MD5_Update(&c, fin, pl > 16 ? 16 : pl);
  fin[0] = 0;
  for (size_t i = in_plen; i; i >>= 1) MD5_Update(&c, (i & 1) ? (const char *)fin : pw, 1);
  MD5_Final(fin, &c);
  for (unsigned i = 0; i < ROUNDS_CUT; i++) {
    MD5_Init(&c1);
    if (i & 1) MD5_Update(&c1, pw, in_plen); else MD5_Update(&c1, fin, 16);
    if (i % 3) MD5_Update(&c1, sp, sl);
    if (i % 7) MD5_Update(&c1, pw, in_plen);
    if (i & 1) MD5_Update(&c1, fin, 16); else MD5_Update(&c1, pw, in_plen);
    MD5_Final(fin, &c1);
  }
  char *p = want;
  *p++ = '$'; *p++ = '1'; *p++ = '$';
  for (size_t i = 0; i < sl; i++) *p++ = sp[i];
  *p++ = '$';
  p = to64r(p, ((unsigned long)fin[0] << 16) | ((unsigned long)fin[6] << 8) | fin[12], 4);
  p = to64r(p, ((unsigned long)fin[1] << 16) | ((unsigned long)fin[7] << 8) | fin[13], 4);
  p = to64r(p, ((unsigned long)fin[2] << 16) | ((unsigned long)fin[8] << 8) | fin[14], 4);
  p = to64r(p, ((unsigned long)fin[3] << 16) | ((unsigned long)fin[9] << 8) | fin[15], 4);
  p = to64r(p, ((unsigned long)fin[4] << 16) | ((unsigned long)fin[10] << 8) | fin[5], 4);
  p = to64r(p, fin[11], 2);
  *p = 0;
  size_t wlen = 3 + sl + 1 + 22;
#endif
#ifdef R_SHA1CRYPT
  in_plen = FIX_PLEN;
  size_t sl = FIX_SLEN;
  /* "$sha1$" ITER "$" salt : ITER is the fixed decimal string ITER_STR */
  static const char itr[] = ITER_STR;
  size_t il = sizeof itr - 1, slen = 6 + il + 1 + sl;
  { const char *m = "$sha1$"; for (int i = 0; i < 6; i++) in_setting[i] = m[i]; }
  for (size_t i = 0; i < il; i++) in_setting[6 + i] = itr[i];
  in_setting[6 + il] = '$';
  for (size_t i = 0; i < sl; i++) { in_setting[7 + il + i] = nondet_char(); __CPROVER_assume(a64i(in_setting[7 + il + i]) >= 0); }
  in_setting[slen] = 0;
  unsigned char hb[20], msg[64]; size_t ml = 0;
  for (size_t i = 0; i < sl; i++) msg[ml++] = (unsigned char)in_setting[7 + il + i];
  { const char *m = "$sha1$"; for (int i = 0; i < 6; i++) msg[ml++] = (unsigned char)m[i]; }
  for (size_t i = 0; i < il; i++) msg[ml++] = (unsigned char)itr[i];
  hmac_sha1_process_data(msg, ml, (const unsigned char *)in_phrase, in_plen, hb);
  for (unsigned i = 0; i < ROUNDS_CUT; i++) hmac_sha1_process_data(hb, 20, (const unsigned char *)in_phrase, in_plen, hb);
  char *p = want;
  for (size_t i = 0; i < slen; i++) *p++ = in_setting[i];
  *p++ = '$';
  for (int i = 0; i < 18; i += 3) p = to64r(p, ((unsigned long)hb[i] << 16) | ((unsigned long)hb[i + 1] << 8) | hb[i + 2], 4);
  p = to64r(p, ((unsigned long)hb[18] << 16) | ((unsigned long)hb[19] << 8) | hb[0], 4);
  *p = 0;
  size_t wlen = slen + 1 + 28;
#endif
  out[0] = '*'; out[1] = '0'; out[2] = 0;
  METHOD_FN(in_phrase, in_plen, in_setting, slen, (uint8_t *)out, sizeof out, scratch, sizeof scratch);
  VF_ASSERT(out[0] != '*', "C02: the method accepts the setting");
  for (size_t i = 0; i < 90; i++) if (i <= wlen) VF_ASSERT(out[i] == want[i], "C02: hash equals the transcription of the published algorithm over the same primitive");
  VF_WITNESS("reference compared");
}
