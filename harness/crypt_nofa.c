/* C03: no false accept, decided modulo the ideal-kernel axiom: the uninterpreted
   kernels are INJECTIVE (instantiated on every pair of applications that occurs
   in the two runs - complete, since the goal is quantifier-free).
   NOFA_PHRASE: same setting, phrases differ inside the significant window
                => hashes differ;  and phrases equal on the window => hashes equal
   NOFA_SETTING: same phrase, settings differ in salt or cost field (both accepted)
                => hash parts differ  */
#include "crypt-port.h"
#include <errno.h>
#include "vf.h"
#define PLEN (sizeof(PREFIX_STR) - 1)
extern void METHOD_FN(const char *, size_t, const char *, size_t, uint8_t *, size_t, void *, size_t);
#ifndef DLOG
#define DLOG 8
#endif
#ifndef UF_LOG_MAX
#define UF_LOG_MAX 40
#endif
extern uint64_t vf_dk_key[], vf_dk_res[]; extern unsigned vf_dk_n;
extern uint64_t vf_db_id[], vf_db_in[], vf_db_res[]; extern uint32_t vf_db_salt[]; extern unsigned vf_db_count[]; extern _Bool vf_db_dec[]; extern unsigned vf_db_n;

size_t in_plen, in_plen2, in_slen;
char in_phrase[MAX_P + 1], in_phrase2[MAX_P + 1];
char in_setting[PLEN + MAX_S + 1], in_setting2[PLEN + MAX_S + 1];
static char o1[CRYPT_OUTPUT_SIZE], o2[CRYPT_OUTPUT_SIZE];
#ifndef SCR_SIZE
#define SCR_SIZE 384
#endif
static _Alignas(16) unsigned char s1[SCR_SIZE], s2[SCR_SIZE];
static int des_ch(char c){return (c>='a'&&c<='z')||(c>='A'&&c<='Z')||(c>='0'&&c<='9')||c=='.'||c=='/';}

void harness(void)
{
  in_plen = nondet_size_t(); in_plen2 = nondet_size_t(); in_slen = nondet_size_t();
  __CPROVER_assume(in_plen <= MAX_P && in_plen2 <= MAX_P && in_slen <= MAX_S && in_slen >= MIN_S);
  for (size_t i = 0; i < MAX_P; i++) {
    in_phrase[i] = nondet_char(); in_phrase2[i] = nondet_char();
    if (i < in_plen) __CPROVER_assume(in_phrase[i] != 0); else in_phrase[i] = 0;
    if (i < in_plen2) __CPROVER_assume(in_phrase2[i] != 0); else in_phrase2[i] = 0;
  }
  in_phrase[MAX_P] = in_phrase2[MAX_P] = 0;
  for (size_t j = 0; j < PLEN; j++) in_setting[j] = in_setting2[j] = PREFIX_STR[j];
  for (size_t j = 0; j < MAX_S; j++) {
    in_setting[PLEN + j] = nondet_char(); in_setting2[PLEN + j] = nondet_char();
    if (j < in_slen) __CPROVER_assume(des_ch(in_setting[PLEN + j]) && des_ch(in_setting2[PLEN + j]));   /* base-64 alphabet */
  }
  in_setting[PLEN + in_slen] = in_setting2[PLEN + in_slen] = 0;

#ifdef FIX_PLEN
  in_plen = in_plen2 = FIX_PLEN; in_slen = FIX_SLEN;
  for (size_t i = FIX_PLEN; i < MAX_P; i++) in_phrase[i] = in_phrase2[i] = 0;
  in_setting[PLEN + in_slen] = in_setting2[PLEN + in_slen] = 0;
#endif
#ifdef NOFA_PHRASE
  for (size_t j = 0; j < PLEN + MAX_S + 1; j++) in_setting2[j] = in_setting[j];
  /* compare on the significant window: first SIG_BYTES bytes, 8th bit ignored (DES-based) */
  _Bool differ = 0;
  for (size_t i = 0; i < MAX_P; i++)
    if (i < SIG_BYTES && ((in_phrase[i] ^ in_phrase2[i]) & SIG_MASK)) differ = 1;
#else
  for (size_t i = 0; i < MAX_P + 1; i++) in_phrase2[i] = in_phrase[i];
  in_plen2 = in_plen;
  /* the settings differ inside the salt/cost field (first FIELD_LEN characters after the prefix) */
  _Bool differ = 0;
  for (size_t j = 0; j < FIELD_LEN; j++) if (in_setting[PLEN + j] != in_setting2[PLEN + j]) differ = 1;
#ifdef KF_F7_EXCLUDE
  /* known finding F7: an all-zero bsdicrypt count field ("_....") is applied as 1 */
  __CPROVER_assume(!(in_setting[1] == '.' && in_setting[2] == '.' && in_setting[3] == '.' && in_setting[4] == '.'));
  __CPROVER_assume(!(in_setting2[1] == '.' && in_setting2[2] == '.' && in_setting2[3] == '.' && in_setting2[4] == '.'));
#endif
#endif

  o1[0] = o2[0] = '*'; o1[1] = o2[1] = '0'; o1[2] = o2[2] = 0;
  METHOD_FN(in_phrase, in_plen, in_setting, PLEN + in_slen, (uint8_t *)o1, sizeof o1, s1, sizeof s1);
  METHOD_FN(in_phrase2, in_plen2, in_setting2, PLEN + in_slen, (uint8_t *)o2, sizeof o2, s2, sizeof s2);

#ifdef NOFA_DIGEST
  {
    /* ideal-hash axiom for the digest model: absorb is injective in all its arguments and
       each digest word determines the accumulator (instantiated on the applications made) */
    extern uint64_t vf_ab_acc[], vf_ab_n[], vf_ab_w0[], vf_ab_w1[], vf_ab_res[], vf_out_acc[], vf_out_i[], vf_out_res[];
    extern unsigned vf_ab_cnt, vf_out_cnt;
    __CPROVER_assume(vf_ab_cnt <= UF_LOG_MAX && vf_out_cnt <= UF_LOG_MAX);
    for (unsigned i = 0; i < UF_LOG_MAX; i++)
      for (unsigned j = 0; j < UF_LOG_MAX; j++) {
        if (i < j && j < vf_ab_cnt && vf_ab_res[i] == vf_ab_res[j])
          __CPROVER_assume(vf_ab_acc[i] == vf_ab_acc[j] && vf_ab_n[i] == vf_ab_n[j] && vf_ab_w0[i] == vf_ab_w0[j] && vf_ab_w1[i] == vf_ab_w1[j]);
        if (i < j && j < vf_out_cnt && vf_out_i[i] == vf_out_i[j] && vf_out_res[i] == vf_out_res[j])
          __CPROVER_assume(vf_out_acc[i] == vf_out_acc[j]);
      }
  }
#else
  /* ideal-cipher axiom, instantiated on the applications that occurred */
  __CPROVER_assume(vf_dk_n <= DLOG && vf_db_n <= DLOG);
  for (unsigned i = 0; i < DLOG; i++)
    for (unsigned j = 0; j < DLOG; j++)
      if (i < j && j < vf_dk_n && vf_dk_res[i] == vf_dk_res[j]) __CPROVER_assume(vf_dk_key[i] == vf_dk_key[j]);
  for (unsigned i = 0; i < DLOG; i++)
    for (unsigned j = 0; j < DLOG; j++)
      if (i < j && j < vf_db_n && vf_db_res[i] == vf_db_res[j])
        __CPROVER_assume(vf_db_id[i] == vf_db_id[j] && vf_db_salt[i] == vf_db_salt[j] && vf_db_in[i] == vf_db_in[j] &&
                         vf_db_count[i] == vf_db_count[j] && vf_db_dec[i] == vf_db_dec[j]);
#endif

  if (o1[0] != '*' && o2[0] != '*') {
    _Bool same = 1;
    for (size_t i = 0; i < OUT_MAX; i++) if (i >= HASH_FROM && o1[i] != o2[i]) same = 0;
    if (differ) {
      VF_ASSERT(!same, "C03: a different passphrase (inside the significant window) or a different salt/cost never reproduces the hash");
      VF_WITNESS("inputs differ");
    }
#ifdef NOFA_PHRASE
    else if (in_plen == in_plen2) {
      VF_ASSERT(same, "C03: bytes documented as insignificant do not change the hash");
      VF_WITNESS("window equal");
    }
#endif
  }
}
