/* API-level harness: the real lib/crypt.c (crypt_rn / crypt_r / crypt_ra,
   do_crypt, get_hashfn, check_badsalt_chars, get_internal), crypt-static.c,
   util-make-failure-token.c; the 16 methods are contract stubs
   (models/method_stub.c).  One step from an ARBITRARY struct crypt_data.
   Serves C05 (fail-closed), C09a (erasure of internal/reserved), C04 (fields
   untouched, what do_crypt hands to a method), C07 (entry points agree,
   prior contents irrelevant), C18 (success => checksalt not INVALID).

   -DEP_RN | -DEP_R | -DEP_STATIC | -DEP_RA   which entry point
   -DMAX_S=n -DMAX_P=n                           symbolic string bounds  */
#include "crypt-port.h"
#include <errno.h>
#include <stdlib.h>
#include "vf.h"

extern char *crypt(const char *, const char *);
extern _Bool vf_oracle_fail; extern int vf_oracle_errno; extern unsigned vf_oracle_len;
extern char vf_oracle_out[];
extern unsigned vf_stub_calls; extern int vf_stub_id;
extern const char *vf_stub_phrase, *vf_stub_setting;
extern size_t vf_stub_phr_size, vf_stub_set_size, vf_stub_out_size, vf_stub_scr_size;
extern uint8_t *vf_stub_output; extern void *vf_stub_scratch;
void vf_oracle_init(void);

struct crypt_data nondet_crypt_data(void);

int in_pkind, in_skind, in_size;
size_t in_plen, in_slen;
char in_phrase[MAX_P + 1];
char in_setting[MAX_S + 1];
static char long_phrase[CRYPT_MAX_PASSPHRASE_SIZE + 1];
#ifdef PLACE_K
/* the caller's object at byte offset PLACE_K inside a larger arena: every
   alignment class of the char-typed object (get_internal re-aligns internally) */
static _Alignas(16) char vf_arena[sizeof(struct crypt_data) + 16];
#define cd (*(struct crypt_data *)(vf_arena + PLACE_K))
static struct crypt_data cd0;
#else
static struct crypt_data cd, cd0;
#endif

static int okchar(unsigned char c)
{
  return c > 0x20 && c < 0x7f && c != ':' && c != ';' && c != '*' && c != '!' && c != '\\';
}

void harness(void)
{
  vf_oracle_init();
  /* phrase kind (0 NULL, 1 short symbolic, 2 a 512-byte string) and setting kind
     (0 NULL, 1 symbolic) are fixed per query: PKIND / SKIND */
  in_pkind = PKIND; in_skind = SKIND;
  in_plen = nondet_size_t(); in_slen = nondet_size_t();
  __CPROVER_assume(in_plen <= MAX_P && in_slen <= MAX_S);

  for (size_t i = 0; i < MAX_P; i++) { in_phrase[i] = nondet_char(); __CPROVER_assume(in_phrase[i] != 0); }
  in_phrase[MAX_P] = 0;
#if PKIND == 2
  for (size_t i = 0; i < CRYPT_MAX_PASSPHRASE_SIZE; i++) long_phrase[i] = 'x';
  long_phrase[CRYPT_MAX_PASSPHRASE_SIZE] = 0;
#endif
  for (size_t i = 0; i < MAX_S; i++) { in_setting[i] = nondet_char(); __CPROVER_assume(in_setting[i] != 0); }
  in_setting[MAX_S] = 0;

#if PKIND == 0
  const char *phrase = 0;
  size_t plen = 0;
#elif PKIND == 1
  const char *phrase = in_phrase + (MAX_P - in_plen);
  size_t plen = in_plen;
#else
  const char *phrase = long_phrase;
  size_t plen = CRYPT_MAX_PASSPHRASE_SIZE;
#endif
#if SKIND == 0
  const char *setting = 0;
#else
  const char *setting = in_setting + (MAX_S - in_slen);
#endif

  /* expected classification, written from crypt(3)/crypt(5) */
  _Bool badchar = 0;
  if (setting)
    for (size_t i = 0; i < MAX_S; i++)
      if (i < in_slen && !okchar((unsigned char)setting[i])) badchar = 1;
  _Bool star0 = setting && in_slen >= 2 && setting[0] == '*' && setting[1] == '0';

  /* contract of the DES-family methods that the empty setting selects: they
     fail on it (asserted of the real functions in harness/crypt_method.c) */
  if (setting && in_slen == 0) __CPROVER_assume(vf_oracle_fail);

  /* Prior contents of the data object.  Each query makes the region its
     assertions are about arbitrary (element-wise) and leaves the rest zero:
     a fully symbolic 2.3 KB object made every query 10-20x slower.  The regions
     are independent because crypt.c never reads a field of the object before
     writing it (it reads only output[0], after the call).  */
#if defined CHECK_RESULT || defined CHECK_ALL
  /* a stale result only has to differ from the token in its first bytes to be seen */
  for (size_t i = 0; i < 16; i++) cd.output[i] = nondet_char();
#endif
#if defined CHECK_FIELDS || defined CHECK_ALL
  /* the first and last 8 bytes of each application-owned field are arbitrary (an
     overflow of a neighbouring field lands there), the middle is zero */
  for (size_t i = 0; i < 8; i++) {
    cd.setting[i] = nondet_char(); cd.setting[sizeof cd.setting - 1 - i] = nondet_char();
    cd.input[i] = nondet_char(); cd.input[sizeof cd.input - 1 - i] = nondet_char();
  }
  for (size_t i = 0; i < sizeof cd.setting; i++) cd0.setting[i] = cd.setting[i];
  for (size_t i = 0; i < sizeof cd.input; i++) cd0.input[i] = cd.input[i];
#endif
#if defined CHECK_ERASE || defined CHECK_ALL
  for (size_t i = 0; i < sizeof cd.reserved; i++) cd.reserved[i] = nondet_char();
  for (size_t i = 0; i < sizeof cd.internal; i++) cd.internal[i] = nondet_char();
  cd.initialized = nondet_char();
  for (size_t i = 0; i < sizeof cd.reserved; i++) cd0.reserved[i] = cd.reserved[i];
  for (size_t i = 0; i < sizeof cd.internal; i++) cd0.internal[i] = cd.internal[i];
  cd0.initialized = cd.initialized;
#endif

  errno = 0;
  char *r;
#if defined EP_RN
  in_size = nondet_int();
  __CPROVER_assume(in_size >= (int)sizeof cd);          /* small sizes: api_crypt_small.c */
  r = crypt_rn(phrase, setting, &cd, in_size);
  struct crypt_data *d = &cd;
#elif defined EP_R
  r = crypt_r(phrase, setting, &cd);
  struct crypt_data *d = &cd;
#elif defined EP_STATIC
  r = crypt(phrase, setting);
  /* the static object is private; observe it through the result and the stub record */
  struct crypt_data *d = 0;
#endif
  int e = errno;

  _Bool invalid = !phrase || !setting || plen >= CRYPT_MAX_PASSPHRASE_SIZE || badchar;
#if PKIND != 1 || SKIND != 1
#define NO_SUCCESS 1
#endif

  if (invalid)
    VF_ASSERT(vf_stub_calls == 0, "C05: invalid arguments never reach a hashing method");
  VF_ASSERT(vf_stub_calls <= 1, "C07: at most one method invocation per call");

  _Bool failed = invalid || vf_stub_calls == 0 || vf_oracle_fail;

  if (vf_stub_calls == 1) {
    /* what do_crypt hands to the method */
    VF_ASSERT(vf_stub_phrase == phrase && vf_stub_setting == setting, "C07: method receives the caller's strings");
    VF_ASSERT(vf_stub_phr_size == plen && vf_stub_set_size == in_slen, "C04: method receives the true string lengths");
    VF_ASSERT(vf_stub_out_size == CRYPT_OUTPUT_SIZE, "C04: method is given the 384-byte output field");
    VF_ASSERT(vf_stub_scr_size == ALG_SPECIFIC_SIZE, "C04: scratch size is ALG_SPECIFIC_SIZE");
#if defined CHECK_PTRS || defined CHECK_ALL
    if (d) {
      VF_ASSERT(vf_stub_output == (uint8_t *)d->output, "C04: method output is data->output");
      VF_ASSERT(__CPROVER_same_object(vf_stub_scratch, d->internal), "C04: scratch lies inside data->internal");
      size_t so = __CPROVER_POINTER_OFFSET(vf_stub_scratch) - __CPROVER_POINTER_OFFSET(d->internal);
      VF_ASSERT(so + ALG_SPECIFIC_SIZE <= sizeof d->internal, "C04: ALG_SPECIFIC_SIZE bytes of scratch fit in internal");
    }
#endif
#ifndef NO_SUCCESS
    VF_WITNESS("method reached");
#endif
  }

  if (failed) {
#if defined EP_RN
    VF_ASSERT(r == 0, "C05: crypt_rn returns NULL on failure");
#else
    /* ENABLE_FAILURE_TOKENS build: crypt/crypt_r return the token */
    VF_ASSERT(r != 0 && r[0] == '*', "C05: crypt/crypt_r return the failure token");
#endif
    VF_ASSERT(e == EINVAL || e == ERANGE || e == ENOMEM, "C05: errno is EINVAL, ERANGE or ENOMEM");
    if (!phrase || !setting) VF_ASSERT(e == EINVAL, "C05: NULL argument is EINVAL");
    else if (plen >= CRYPT_MAX_PASSPHRASE_SIZE) VF_ASSERT(e == ERANGE, "C05: over-long phrase is ERANGE");
    else if (badchar) VF_ASSERT(e == EINVAL, "C05: forbidden byte in setting is EINVAL");
    else if (vf_stub_calls == 0) VF_ASSERT(e == EINVAL, "C05: unknown method is EINVAL");
    else VF_ASSERT(e == vf_oracle_errno, "C05: the method's errno is reported");
    const char *o = d ? d->output : r;
    VF_ASSERT(o[0] == '*' && (o[1] == '0' || o[1] == '1') && o[2] == 0, "C05: output holds the failure token");
    VF_ASSERT((o[1] == '1') == star0, "C05: token is *1 exactly when the setting starts with *0");
    if (setting) {
      _Bool same = in_slen == 2 && setting[0] == o[0] && setting[1] == o[1];
      VF_ASSERT(!same, "C05: failure token differs from the setting");
    }
    VF_ASSERT(crypt_checksalt(o) == CRYPT_SALT_INVALID, "C05: failure token is itself rejected as a setting");
    VF_WITNESS("failure path");
  } else {
    const char *o = d ? d->output : r;
#if defined EP_STATIC
    VF_ASSERT(r != 0, "C07: crypt returns its static output on success");
#else
    VF_ASSERT(r == d->output, "C07: success returns data->output");
#endif
    for (unsigned i = 0; i < STUB_MAXLEN; i++)
      if (i < vf_oracle_len) VF_ASSERT(o[i] == vf_oracle_out[i], "C07: result is exactly what the method produced");
    VF_ASSERT(o[vf_oracle_len] == 0, "C07: result is exactly what the method produced (terminator)");
    VF_ASSERT(crypt_checksalt(setting) != CRYPT_SALT_INVALID, "C18: a setting crypt can hash is never INVALID for crypt_checksalt");
#ifndef NO_SUCCESS
    VF_WITNESS("success path");
#endif
  }

  if (d) {
#if defined CHECK_FIELDS || defined CHECK_ALL
    /* C04: application-owned fields */
    for (size_t i = 0; i < sizeof cd.setting; i++) VF_ASSERT(cd.setting[i] == cd0.setting[i], "C04: data->setting never written");
    for (size_t i = 0; i < sizeof cd.input; i++) VF_ASSERT(cd.input[i] == cd0.input[i], "C04: data->input never written");
#endif
#if defined CHECK_ERASE || defined CHECK_ALL
    /* C09a: erasure */
    if (vf_stub_calls == 1) {
      for (size_t k = 0; k < sizeof cd.internal; k++)
        VF_ASSERT(cd.internal[k] == 0, "C09: internal is entirely zero after any call that got past validation");
      for (size_t j = 0; j < sizeof cd.reserved; j++)
        VF_ASSERT(cd.reserved[j] == 0, "C09: reserved is entirely zero after any call that got past validation");
      VF_ASSERT(cd.initialized == 0, "C09: initialized is 0 after any call that got past validation");
    } else {
      for (size_t k = 0; k < sizeof cd.internal; k++)
        VF_ASSERT(cd.internal[k] == cd0.internal[k], "C09: internal untouched when validation fails");
      for (size_t j = 0; j < sizeof cd.reserved; j++)
        VF_ASSERT(cd.reserved[j] == cd0.reserved[j], "C09: reserved untouched when validation fails");
      VF_ASSERT(cd.initialized == cd0.initialized, "C09: initialized untouched when validation fails");
    }
#endif
  }
}
