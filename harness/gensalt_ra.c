/* C14/C15: crypt_gensalt_ra with an allocator that may fail.  */
#include "crypt-port.h"
#include <errno.h>
#include <stdlib.h>
#include "vf.h"
unsigned long in_count; int in_nrbytes; unsigned char in_rbytes[MAX_RB];
void harness(void)
{
  in_count = nondet_ulong(); in_nrbytes = nondet_int();
  __CPROVER_assume(in_nrbytes >= 0 && in_nrbytes <= MAX_RB);
  static char rb[MAX_RB];
  for (int i = 0; i < MAX_RB; i++) { in_rbytes[i] = nondet_uchar(); rb[i] = (char)in_rbytes[i]; }
  errno = 0;
  char *r = crypt_gensalt_ra(PREFIX_RA, in_count, rb, in_nrbytes);
  if (r) {
    VF_ASSERT(__CPROVER_w_ok(r, CRYPT_GENSALT_OUTPUT_SIZE), "C14: crypt_gensalt_ra returns a live CRYPT_GENSALT_OUTPUT_SIZE block");
    VF_ASSERT(__CPROVER_POINTER_OFFSET(r) == 0, "C14: the result is the start of the malloc'd block (the caller can free it)");
    VF_ASSERT(r[0] != '*', "C14: a returned setting is not a failure token");
    free(r);
    VF_WITNESS("gensalt_ra success");
  } else {
    VF_WITNESS("gensalt_ra failure");
  }
  /* nothing else is allocated: checked by --memory-leak-check */
}
