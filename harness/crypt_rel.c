/* Relational method harness (C01 round trip, C07 purity, C03 no false accept):
   the real crypt_<m>_rn over UF digest models, two or three runs.
   -DREL_RT   : out2 = crypt(P, out1) == out1; out3 = crypt(P, out1 with its digest
                replaced by arbitrary alphabet characters) == out1
   -DREL_PURE : two runs, same (P,S), independent garbage in output and scratch:
                same result and errno
   Placement: strings at the base of their objects (constant offsets).  */
#include "crypt-port.h"
#include <errno.h>
#include "vf.h"

#define PLEN (sizeof(PREFIX_STR) - 1)
extern void METHOD_FN(const char *, size_t, const char *, size_t, uint8_t *, size_t, void *, size_t);

size_t in_plen, in_slen;
char in_phrase[MAX_P + 1];
char in_setting[PLEN + MAX_S + 1];
static char o1[CRYPT_OUTPUT_SIZE], o2[CRYPT_OUTPUT_SIZE], o3[CRYPT_OUTPUT_SIZE], h3[CRYPT_OUTPUT_SIZE];
/* scratch objects: SCR_SIZE bytes (>= the method's own scratch struct, which the
   method checks; smaller than the real 8192 to keep the byte-level encoding small) */
#ifndef SCR_SIZE
#define SCR_SIZE ALG_SPECIFIC_SIZE
#endif
static _Alignas(16) unsigned char s1[SCR_SIZE], s2[SCR_SIZE];

static int okchar(unsigned char c)
{ return c > 0x20 && c < 0x7f && c != ':' && c != ';' && c != '*' && c != '!' && c != '\\'; }
#ifdef VF_DES_CH
static int des_ch(char c){return (c>='a'&&c<='z')||(c>='A'&&c<='Z')||(c>='0'&&c<='9')||c=='.'||c=='/';}
#endif
static int alpha_ok(unsigned char c)
{
#if HASH_ALPHA == 1
  return (c >= '0' && c <= '9') || (c >= 'a' && c <= 'f');
#else
  return (c >= 'a' && c <= 'z') || (c >= 'A' && c <= 'Z') || (c >= '0' && c <= '9') || c == '.' || c == '/';
#endif
}
static size_t slen(const char *s) { size_t n = 0; for (size_t i = 0; i < OUT_MAX; i++) if (n == i && s[i]) n = i + 1; return n; }
static void tok(char *o) { o[0] = '*'; o[1] = '0'; o[2] = 0; }

void harness(void)
{
  in_plen = nondet_size_t(); in_slen = nondet_size_t();
  __CPROVER_assume(in_plen <= MAX_P && in_slen <= MAX_S);
#ifdef FIX_PLEN
  /* case split on the lengths (contents stay symbolic): with concrete lengths every
     copy and every absorb loop has a concrete trip count */
  in_plen = FIX_PLEN; in_slen = FIX_SLEN;
#endif
  for (size_t i = 0; i < MAX_P; i++) { in_phrase[i] = nondet_char(); if (i < in_plen) __CPROVER_assume(in_phrase[i] != 0); }
  in_phrase[in_plen] = 0;
  for (size_t j = 0; j < PLEN; j++) in_setting[j] = PREFIX_STR[j];
  for (size_t j = 0; j < MAX_S; j++) { in_setting[PLEN + j] = nondet_char(); if (j < in_slen) __CPROVER_assume(okchar((unsigned char)in_setting[PLEN + j])); }
  in_setting[PLEN + in_slen] = 0;
  size_t off = 0;
  const char *setting = in_setting;
#ifdef SETTING_PRECOND
  SETTING_PRECOND
#endif
#ifdef NOT_ROUNDS
  { const char *t = setting + PLEN;
    __CPROVER_assume(!(in_slen >= 7 && t[0]=='r'&&t[1]=='o'&&t[2]=='u'&&t[3]=='n'&&t[4]=='d'&&t[5]=='s'&&t[6]=='=')); }
#endif

  tok(o1);
  errno = 0;
  METHOD_FN(in_phrase, in_plen, setting, PLEN + in_slen, (uint8_t *)o1, sizeof o1, s1, sizeof s1);
  int e1 = errno;

#ifdef REL_PURE
  /* second run: same inputs, different residue in the library-owned areas */
  for (size_t i = 3; i < 64; i++) o2[i] = nondet_char();
  for (size_t i = 0; i < SCRATCH_GARBAGE; i++) s2[i] = nondet_uchar();
  tok(o2);
  errno = 0;
  METHOD_FN(in_phrase, in_plen, setting, PLEN + in_slen, (uint8_t *)o2, sizeof o2, s2, sizeof s2);
  int e2 = errno;
  VF_ASSERT((o1[0] == '*') == (o2[0] == '*'), "C07: success does not depend on prior contents of output/scratch");
  if (o1[0] != '*') {
    for (size_t i = 0; i < OUT_MAX; i++) VF_ASSERT(o1[i] == o2[i] || (i > 0 && slen(o1) < i), "C07: result does not depend on prior contents of output/scratch");
    VF_WITNESS("pure: both succeed");
  } else {
    VF_ASSERT(e1 == e2, "C07: errno does not depend on prior contents");
  }
#endif

#ifdef REL_RT
  if (o1[0] != '*') {
    size_t n = slen(o1);
    __CPROVER_assume(n < OUT_MAX);      /* asserted in C06; keeps the copies bounded here */
#ifndef RT_ALT_ONLY
    /* run 2: the produced hash as setting */
    tok(o2);
    errno = 0;
    METHOD_FN(in_phrase, in_plen, o1, n, (uint8_t *)o2, sizeof o2, s2, sizeof s2);
    VF_ASSERT(o2[0] != '*', "C01: re-hashing with the produced hash as setting succeeds");
    for (size_t i = 0; i < OUT_MAX; i++) if (i <= n) VF_ASSERT(o2[i] == o1[i], "C01: re-hashing with the produced hash reproduces it exactly");
#endif
#ifndef RT_SELF_ONLY
    /* run 3: digest part replaced by arbitrary same-length text from the alphabet */
    for (size_t i = 0; i < OUT_MAX; i++) {
      h3[i] = o1[i];
      if (i < n && i + HASH_LEN >= n) { h3[i] = nondet_char(); __CPROVER_assume(alpha_ok((unsigned char)h3[i])); }
    }
    tok(o3);
    errno = 0;
    METHOD_FN(in_phrase, in_plen, h3, n, (uint8_t *)o3, sizeof o3, s1, sizeof s1);
    VF_ASSERT(o3[0] != '*', "C01: the hash portion of a setting does not influence acceptance");
    for (size_t i = 0; i < OUT_MAX; i++) if (i <= n) VF_ASSERT(o3[i] == o1[i], "C01: only prefix, options and salt of a setting influence the result");
#endif
    VF_WITNESS("round trip");
  }
#endif
}
