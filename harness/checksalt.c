/* C18 / C19: crypt_checksalt, crypt_preferred_method and get_hashfn against an
   independent classifier written from doc/crypt_checksalt.3 and doc/crypt.5.
   The classifier is parameterised by the set of enabled methods (EN_<m> macros
   derived by the runner from hashes.conf + the selection), so the same harness
   serves every build configuration.  Symbolic setting: all byte values, length
   0..MAX_S, exact fit.  */
#include "crypt-port.h"
#include <errno.h>
#include "vf.h"

size_t in_slen, in_tlen;
char in_setting[MAX_S + 1];
char in_tail[MAX_S + 1];

static int okchar(unsigned char c)
{
  return c > 0x20 && c < 0x7f && c != ':' && c != ';' && c != '*' && c != '!' && c != '\\';
}
static int des_ch(char c)
{
  return (c >= 'a' && c <= 'z') || (c >= 'A' && c <= 'Z') || (c >= '0' && c <= '9') || c == '.' || c == '/';
}
static int starts(const char *s, size_t n, const char *p)
{
  size_t i = 0;
  for (; p[i]; i++) if (i >= n || s[i] != p[i]) return 0;
  return 1;
}

/* expected class: -1 unknown (INVALID), 0 strong (OK), 1 legacy */
#define UNK (-1)
static int classify(const char *s, size_t n)
{
  /* documented prefixes; strength from doc/crypt.5 "strong" / hashes.conf STRONG flag */
#if EN_sha1crypt
  if (starts(s, n, "$sha1")) return 1;
#endif
#if EN_bcrypt_a
  if (starts(s, n, "$2a$")) return 0;
#endif
#if EN_bcrypt
  if (starts(s, n, "$2b$")) return 0;
#endif
#if EN_bcrypt_x
  if (starts(s, n, "$2x$")) return 1;
#endif
#if EN_bcrypt_y
  if (starts(s, n, "$2y$")) return 0;
#endif
#if EN_gost_yescrypt
  if (starts(s, n, "$gy$")) return 0;
#endif
#if EN_sunmd5
  if (starts(s, n, "$md5")) return 1;
#endif
#if EN_md5crypt
  if (starts(s, n, "$1$")) return 1;
#endif
#if EN_nt
  if (starts(s, n, "$3$")) return 1;
#endif
#if EN_sha256crypt
  if (starts(s, n, "$5$")) return 1;
#endif
#if EN_sha512crypt
  if (starts(s, n, "$6$")) return 0;
#endif
#if EN_scrypt
  if (starts(s, n, "$7$")) return 0;
#endif
#if EN_yescrypt
  if (starts(s, n, "$y$")) return 0;
#endif
#if EN_bsdicrypt
  if (starts(s, n, "_")) return 1;
#endif
#if EN_bigcrypt || EN_descrypt
  if (n == 0 || (n >= 2 && des_ch(s[0]) && des_ch(s[1]))) return 1;
  /* one DES character followed by NUL: setting[1] is the terminator, not a DES char */
#endif
  return UNK;
}

void harness(void)
{
  in_slen = nondet_size_t();
  __CPROVER_assume(in_slen <= MAX_S);
  for (size_t i = 0; i < MAX_S; i++) { in_setting[i] = nondet_char(); __CPROVER_assume(in_setting[i] != 0); }
  in_setting[MAX_S] = 0;
  const char *s = in_setting + (MAX_S - in_slen);

  _Bool bad = 0;
  for (size_t i = 0; i < MAX_S; i++) if (i < in_slen && !okchar((unsigned char)s[i])) bad = 1;

  int c = crypt_checksalt(s);
  int k = classify(s, in_slen);
  if (in_slen == 0 || bad || k == UNK) {
    VF_ASSERT(c == CRYPT_SALT_INVALID, "C18: empty, ill-charactered or unrecognised setting is INVALID");
    if (in_slen > 0 && !bad) VF_WITNESS("unknown prefix");
    if (bad) VF_WITNESS("bad character");
  } else if (k == 0) {
    VF_ASSERT(c == CRYPT_SALT_OK, "C18: strong method is OK");
#ifdef HAVE_STRONG
    VF_WITNESS("strong method");
#endif
  } else {
    VF_ASSERT(c == CRYPT_SALT_METHOD_LEGACY, "C18: every other recognised method is LEGACY");
#ifdef HAVE_LEGACY
    VF_WITNESS("legacy method");
#endif
  }
  VF_ASSERT(crypt_checksalt(0) == CRYPT_SALT_INVALID, "C18: NULL is INVALID");

  /* depends only on tag and character set: a second string with the same first
     5 bytes (longest tag) and also clean gets the same class */
  in_tlen = nondet_size_t();
  __CPROVER_assume(in_tlen <= MAX_S && in_tlen >= 5 && in_slen >= 5);
  for (size_t i = 0; i < MAX_S; i++) { in_tail[i] = nondet_char(); __CPROVER_assume(in_tail[i] != 0); }
  in_tail[MAX_S] = 0;
  const char *t = in_tail + (MAX_S - in_tlen);
  _Bool bad2 = 0;
  for (size_t i = 0; i < MAX_S; i++) if (i < in_tlen && !okchar((unsigned char)t[i])) bad2 = 1;
  _Bool same5 = 1;
  for (size_t i = 0; i < 5; i++) if (t[i] != s[i]) same5 = 0;
  if (!bad && !bad2 && same5) {
    VF_ASSERT(crypt_checksalt(t) == c, "C18: result depends only on the method tag and character set");
    VF_WITNESS("two settings same tag");
  }

  /* preferred method */
  const char *pm = crypt_preferred_method();
#ifdef EXPECT_DEFAULT
  VF_ASSERT(pm != 0, "C18/C19: a default-capable method is enabled, so a preferred method exists");
  {
    const char *e = EXPECT_DEFAULT;
    size_t i = 0;
    for (; e[i]; i++) VF_ASSERT(pm[i] == e[i], "C19: preferred method is the first enabled DEFAULT entry of hashes.conf");
    VF_ASSERT(pm[i] == 0, "C19: preferred method is the first enabled DEFAULT entry of hashes.conf (length)");
  }
  VF_ASSERT(crypt_checksalt(pm) == CRYPT_SALT_OK, "C18: crypt_checksalt(crypt_preferred_method()) is OK");
#if !CRYPT_GENSALT_IMPLEMENTS_DEFAULT_PREFIX
  VF_ASSERT(0, "C19: CRYPT_GENSALT_IMPLEMENTS_DEFAULT_PREFIX must be 1 when a default exists");
#endif
#else
  VF_ASSERT(pm == 0, "C19: no default-capable method enabled, so no preferred method");
#if CRYPT_GENSALT_IMPLEMENTS_DEFAULT_PREFIX
  VF_ASSERT(0, "C19: CRYPT_GENSALT_IMPLEMENTS_DEFAULT_PREFIX must be 0 when no default exists");
#endif
#endif
  VF_WITNESS("end");
}
