/* C09e: hmac_sha1_process_data (real alg-hmac-sha1.c + alg-sha1.c) wipes every
   stack temporary completely.  The explicit_bzero model logs each wipe; here every
   wipe must cover its object from the pointer to the object's end (a shortened
   length is a violation) and the number of wipes must be the one the algorithm
   needs (a deleted call is a violation): tk, k_ipad, k_opad, two finished
   contexts, plus the key-hashing context when the key is longer than a block.  */
#include "crypt-port.h"
#include "alg-hmac-sha1.h"
#include "vf.h"
#ifndef MAXK
#define MAXK 70
#endif
size_t in_klen, in_tlen;
unsigned char in_key[MAXK], in_text[8];
extern unsigned vf_wipe_n;
extern _Bool vf_wipe_partial;
void harness(void)
{
  /* lengths are concrete per query (KLEN, TLEN): with symbolic lengths SHA-1's
     byte-by-byte padding loop has a symbolic trip count in every context */
  in_klen = KLEN; in_tlen = TLEN;
  for (size_t i = 0; i < MAXK; i++) in_key[i] = nondet_uchar();
  for (size_t i = 0; i < 8; i++) in_text[i] = nondet_uchar();
  unsigned char res[20];
  hmac_sha1_process_data(in_text, in_tlen, in_key, in_klen, res);
  VF_ASSERT(!vf_wipe_partial, "C09: every stack temporary is wiped over its whole length");
  VF_ASSERT(vf_wipe_n == (in_klen > 64 ? 9u : 7u), "C09: HMAC-SHA1 wipes tk, both pads and every SHA-1 context");
  VF_WITNESS("hmac done");
}
