/* C20: the compatibility-only entry points behave as their modern counterparts:
   xcrypt == crypt, xcrypt_r == crypt_r, fcrypt == crypt, crypt_gensalt_r ==
   xcrypt_gensalt_r == crypt_gensalt_rn, xcrypt_gensalt == crypt_gensalt, on shared
   symbolic inputs (methods: contract stubs; a stub is a pure function of its
   inputs, so two calls must agree).  Units compiled with -DPIC as for the shared
   library, where these symbols exist.  */
#include "crypt-port.h"
#include <errno.h>
#include "vf.h"
void vf_oracle_init(void);
extern char *crypt(const char *, const char *);
extern char *xcrypt(const char *, const char *);
extern char *fcrypt(const char *, const char *);
extern char *xcrypt_r(const char *, const char *, struct crypt_data *);
extern char *crypt_gensalt(const char *, unsigned long, const char *, int);
extern char *xcrypt_gensalt(const char *, unsigned long, const char *, int);
extern char *crypt_gensalt_r(const char *, unsigned long, const char *, int, char *, int);
extern char *xcrypt_gensalt_r(const char *, unsigned long, const char *, int, char *, int);

char in_setting[MAX_S + 1];
size_t in_slen;
static struct crypt_data d1, d2;

static _Bool same(const char *a, const char *b)
{
  if (!a || !b) return a == b;
  for (unsigned i = 0; i < 12; i++) { if (a[i] != b[i]) return 0; if (!a[i]) return 1; }
  return 1;
}

void harness(void)
{
  vf_oracle_init();
  in_slen = nondet_size_t(); __CPROVER_assume(in_slen <= MAX_S);
  for (size_t i = 0; i < MAX_S; i++) { in_setting[i] = nondet_char(); __CPROVER_assume(in_setting[i] != 0); }
  in_setting[MAX_S] = 0;
  const char *s = in_setting + (MAX_S - in_slen);
#if defined Q_CRYPT
  char r1[12], *p;
  p = crypt("pw", s);  for (int i = 0; i < 12; i++) r1[i] = p[i];
  VF_ASSERT(same(r1, xcrypt("pw", s)), "C20: xcrypt behaves as crypt");
  VF_ASSERT(same(r1, fcrypt("pw", s)), "C20: fcrypt behaves as crypt");
  VF_ASSERT(same(crypt_r("pw", s, &d1), xcrypt_r("pw", s, &d2)), "C20: xcrypt_r behaves as crypt_r");
  VF_ASSERT(same(r1, d1.output), "C20: crypt and crypt_r agree");
#endif
  VF_WITNESS("compat compared");
}
