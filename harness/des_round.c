/* C17 Q1/Q2: the real des_crypt_block with its 16-round loop cut after NROUNDS
   iterations (--partial-loops) against the bit-level FIPS 46-3 reference with
   NROUNDS rounds: symbolic block, symbolic 16x48-bit round keys, symbolic 24-bit
   salt mask, both directions.  NROUNDS = 1 and 2 give equality for every number
   of rounds (lemma in DESIGN.md C17); every table entry a symbolic index can
   reach is covered.  */
#include "crypt-port.h"
#include "alg-des.h"
#include "ref_des.h"
#include "vf.h"

unsigned char in_block[8];
uint32_t in_kl[16], in_kr[16], in_salt;
_Bool in_decrypt;

void harness(void)
{
  struct des_ctx ctx;
  uint64_t k48[16];
  for (int i = 0; i < 16; i++) {
    in_kl[i] = nondet_u32(); in_kr[i] = nondet_u32();
    __CPROVER_assume(in_kl[i] < (1u << 24) && in_kr[i] < (1u << 24));
    ctx.keysl[i] = in_kl[i]; ctx.keysr[i] = in_kr[i];
    k48[i] = ((uint64_t)in_kl[i] << 24) | in_kr[i];
  }
  in_salt = nondet_u32();
  __CPROVER_assume(in_salt < (1u << 24));
  ctx.saltbits = in_salt;
  in_decrypt = nondet_bool();
  uint64_t b = 0;
  for (int i = 0; i < 8; i++) { in_block[i] = nondet_uchar(); b = (b << 8) | in_block[i]; }
  unsigned char out[8];
  des_crypt_block(&ctx, out, in_block, 1, in_decrypt);
  uint64_t got = 0;
  for (int i = 0; i < 8; i++) got = (got << 8) | out[i];
  uint64_t want = ref_des_rounds(b, k48, in_salt, NROUNDS, in_decrypt);
  VF_ASSERT(got == want, "C17: table-driven round(s) equal the FIPS 46-3 round function with the crypt(3) salt swap");
  VF_WITNESS("des rounds compared");
}
