/* C09f: PBKDF2_SHA256 (real alg-sha256.c; SHA256_Transform replaced by a havoc
   stub) wipes every stack temporary that held key-derived data, on both of its
   paths: the c == 1 fast path (hctx, tmp32, u) and the generic path (Phctx, PShctx,
   U, T, hctx, tmp32, u).  The explicit_bzero model logs each wipe; every wipe must
   run from its pointer to the end of its object, the number of wipes must be the
   one the path needs, and the three HMAC contexts of the generic path must each be
   wiped -- for every iteration count, c == 1 included (Phctx holds the keyed
   state whether or not the U_j loop runs).  */
#include "crypt-port.h"
#include "alg-sha256.h"
#include "vf.h"
#ifndef MAXDK
#define MAXDK 72
#endif
extern unsigned vf_wipe_n;
extern _Bool vf_wipe_partial;
extern size_t vf_wipe_len[];
unsigned char in_pw[PLEN ? PLEN : 1], in_salt[SLEN ? SLEN : 1], out_dk[MAXDK];
void harness(void)
{
  /* lengths are concrete per query (PLEN, SLEN, DKLEN): SHA256_Update's block
     arithmetic is then concrete; the iteration count is symbolic in [1, MAXC] */
  for (size_t i = 0; i < sizeof in_pw; i++) in_pw[i] = nondet_uchar();
  for (size_t i = 0; i < sizeof in_salt; i++) in_salt[i] = nondet_uchar();
  uint64_t c = nondet_u64();
  __CPROVER_assume(c >= 1 && c <= MAXC);
  _Bool fast = c == 1 && (DKLEN & 31) == 0 && (SLEN & 63) <= 51;
  PBKDF2_SHA256(in_pw, PLEN, in_salt, SLEN, c, out_dk, DKLEN);
  VF_ASSERT(!vf_wipe_partial, "C09: every PBKDF2 stack temporary is wiped over its whole length");
  VF_ASSERT(vf_wipe_n == (fast ? 3u : 7u), "C09: PBKDF2_SHA256 wipes all of Phctx, PShctx, U, T, hctx, tmp32, u on its path");
  unsigned nctx = 0, n32 = 0;
  for (unsigned i = 0; i < 7 && i < vf_wipe_n; i++) {
    if (vf_wipe_len[i] == sizeof(HMAC_SHA256_CTX)) nctx++;
    if (vf_wipe_len[i] == 32) n32++;
  }
  VF_ASSERT(nctx == (fast ? 1u : 3u), "C09: every HMAC context of the path is wiped");
  VF_ASSERT(n32 == (fast ? 0u : 2u), "C09: U and T are wiped on the generic path");
#if (DKLEN & 31) == 0 && (SLEN & 63) <= 51
  if (fast) VF_WITNESS("pbkdf2 fast path done");
#endif
#if MAXC > 1 || (DKLEN & 31) != 0 || (SLEN & 63) > 51
  if (!fast) VF_WITNESS("pbkdf2 generic path done");
#endif
}
