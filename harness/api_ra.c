/* C14 (and the crypt_ra part of C15, C09c): one inductive step of crypt_ra from an
   arbitrary valid (*data, *size) pair; methods are contract stubs; realloc is the
   model in models/alloc.c (may fail, may move).  The post-state satisfies the
   pre-state invariant, so call sequences of any length are covered.  */
#include "crypt-port.h"
#include <errno.h>
#include <stdlib.h>
#include "vf.h"

extern size_t vf_old_size; extern unsigned vf_realloc_calls; extern _Bool vf_realloc_failed;
extern void *vf_realloc_old, *vf_realloc_new; extern size_t vf_realloc_n;
extern unsigned vf_stub_calls; extern _Bool vf_oracle_fail;
void vf_oracle_init(void);

int in_kind, in_size;
char in_setting[MAX_S + 1];
size_t in_slen;

#define SZ ((int)sizeof(struct crypt_data))

void harness(void)
{
  vf_oracle_init();
  in_kind = KIND;        /* which prior block: fixed per query (one concrete heap object per query) */
  int in_sk = nondet_int();       /* which recorded size: classes with concrete values */
  __CPROVER_assume(in_sk >= 0 && in_sk <= 5);
  /* pre-state invariant I(*data,*size): *data is NULL, or a live malloc block of A
     bytes and (*size <= 0 or *size <= A) */
  void *data; size_t A;
#if KIND == 0
  data = 0; A = 0;
#elif KIND == 1
  data = malloc(1); A = 1;
#elif KIND == 2
  data = malloc(SZ - 1); A = SZ - 1;
#elif KIND == 3
  data = malloc(SZ); A = SZ;
#else
  data = malloc(SZ + 8); A = SZ + 8;
#endif
  if (in_kind != 0) __CPROVER_assume(data != 0);
  /* recorded *size: negative, zero, 1, A/2, A-1 or A (never more than the block holds) */
  in_size = in_sk == 0 ? (-2147483647 - 1) : in_sk == 1 ? -1 : in_sk == 2 ? 0 : in_sk == 3 ? 1
          : in_sk == 4 ? (int)(A / 2) : (int)A;
  if (A == 0) __CPROVER_assume(in_sk <= 3);
  if (A == 0 && in_sk == 3) in_size = 1;    /* (NULL, 1): *size is ignored when *data is NULL */
  __CPROVER_assume(data == 0 || in_size <= 0 || (size_t)in_size <= A);
  /* arbitrary contents at the positions the erase check looks at */
  if (data) {
    unsigned char *b = data;
    b[0] = nondet_uchar(); b[A - 1] = nondet_uchar(); b[A / 2] = nondet_uchar(); b[A / 4] = nondet_uchar();
    if (A >= 2) b[A - 2] = nondet_uchar();
  }
  in_slen = nondet_size_t(); __CPROVER_assume(in_slen <= MAX_S);
  for (size_t i = 0; i < MAX_S; i++) { in_setting[i] = nondet_char(); __CPROVER_assume(in_setting[i] != 0); }
  in_setting[MAX_S] = 0;
  const char *setting = in_setting + (MAX_S - in_slen);
  if (in_slen == 0) __CPROVER_assume(vf_oracle_fail);

  void *data0 = data; int size0 = in_size;
  int size = in_size;
  vf_old_size = (data && size > 0) ? (size_t)size : 0;
  errno = 0;
  char *r = crypt_ra("pw", setting, &data, &size);
  int e = errno;

  _Bool must_grow = !data0 || size0 < 0 || (size_t)size0 < sizeof(struct crypt_data);
  if (must_grow) {
    VF_ASSERT(vf_realloc_calls == 1, "C14: an absent or undersized block is (re)allocated exactly once");
    VF_ASSERT(vf_realloc_old == data0 && vf_realloc_n == sizeof(struct crypt_data), "C14: realloc of the caller's block to sizeof(struct crypt_data)");
    if (vf_realloc_failed) {
      VF_ASSERT(r == 0, "C15: allocation failure returns NULL");
      VF_ASSERT(data == data0 && size == size0, "C14: on allocation failure *data and *size are unchanged");
      VF_ASSERT(e == 0 || e == ENOMEM, "C15: allocation failure leaves errno as realloc set it");
      VF_ASSERT(vf_stub_calls == 0, "C15: no hashing without a data object");
#if KIND <= 2
      VF_WITNESS("realloc failed");
#endif
    } else {
      VF_ASSERT(data == vf_realloc_new && size == SZ, "C14: *data is the new block and *size its size");
      VF_ASSERT(__CPROVER_w_ok(data, sizeof(struct crypt_data)), "C14: the new block is live and large enough");
      struct crypt_data *d = data;
      for (size_t i = 0; i < sizeof d->setting; i++) VF_ASSERT(d->setting[i] == 0, "C14: a grown block is zero-initialised (setting)");
      for (size_t i = 0; i < sizeof d->input; i++) VF_ASSERT(d->input[i] == 0, "C14: a grown block is zero-initialised (input)");
#if KIND <= 2
      VF_WITNESS("grown");
#endif
    }
  } else {
    VF_ASSERT(vf_realloc_calls == 0, "C14: a sufficient block is kept");
    VF_ASSERT(data == data0 && size == size0, "C14: *data and *size unchanged for a sufficient block");
#if KIND >= 3
    VF_WITNESS("kept");
#endif
  }
  if (data) {
    VF_ASSERT(size <= 0 || __CPROVER_r_ok(data, (size_t)(size > 0 ? size : 0)), "C14: post-state satisfies the invariant: *size bytes of *data are live");
  }
  if (r) {
    VF_ASSERT(data != 0 && r == ((struct crypt_data *)data)->output, "C14: a non-NULL result points at the output field inside *data");
    VF_WITNESS("success");
  } else if (!(must_grow && vf_realloc_failed)) {
    struct crypt_data *d = data;
    VF_ASSERT(d->output[0] == '*', "C05: failing crypt_ra leaves the failure token");
    VF_ASSERT(e == EINVAL || e == ERANGE || e == ENOMEM, "C05: failing crypt_ra sets errno");
  }
  /* the caller frees exactly once: must be a valid free */
  if (data) free(data);
}
