/* bcrypt: the real static BF_crypt called directly (crypt-bcrypt.c compiled with
   --export-file-local-symbols).  The Eksblowfish loops are cut after one iteration
   (--partial-loops), so the digest is meaningless, but setting validation, salt
   decoding, the key schedule call and the output formatting are the real code:
     - accepted  <=> the setting has the documented shape $2[abxy]$DD$ + 22 salt
       characters with DD in 04..31 (C05/C06/C10: what gensalt emits is accepted,
       nothing else is)
     - on success output = the 29 setting characters (last salt character
       canonicalised) + 31 characters of the bcrypt alphabet + NUL, nothing beyond
     - on failure errno = EINVAL and output untouched  */
#include "crypt-port.h"
#include <errno.h>
#include <stdbool.h>
#include "vf.h"
typedef uint32_t BF_word;
struct BF_data_opaque { unsigned char b[4400]; };
extern bool __CPROVER_file_local_crypt_bcrypt_c_BF_crypt(const char *key, const char *setting, unsigned char *output, void *data, BF_word min);
char in_key[MAX_P + 1], in_setting[32];
size_t in_plen;
static unsigned char out[64], out0[64];
static _Alignas(16) struct BF_data_opaque data;
static int bf64(char c) { return (c >= 'a' && c <= 'z') || (c >= 'A' && c <= 'Z') || (c >= '0' && c <= '9') || c == '.' || c == '/'; }
void harness(void)
{
  in_plen = nondet_size_t(); __CPROVER_assume(in_plen <= MAX_P);
  for (size_t i = 0; i < MAX_P; i++) { in_key[i] = nondet_char(); if (i < in_plen) __CPROVER_assume(in_key[i] != 0); else in_key[i] = 0; }
  in_key[MAX_P] = 0;
  for (int i = 0; i < 31; i++) { in_setting[i] = nondet_char(); __CPROVER_assume((unsigned char)in_setting[i] > 0x20 && (unsigned char)in_setting[i] < 0x7f); }
  in_setting[31] = 0;
  for (int i = 0; i < 64; i++) { out[i] = nondet_uchar(); out0[i] = out[i]; }
  _Bool shape = in_setting[0] == '$' && in_setting[1] == '2' &&
    (in_setting[2] == 'a' || in_setting[2] == 'b' || in_setting[2] == 'x' || in_setting[2] == 'y') &&
    in_setting[3] == '$' && in_setting[4] >= '0' && in_setting[4] <= '3' && in_setting[5] >= '0' && in_setting[5] <= '9' &&
    in_setting[6] == '$';
  int cost = (in_setting[4] - '0') * 10 + (in_setting[5] - '0');
  _Bool salt_ok = 1;
  for (int i = 7; i < 29; i++) if (!bf64(in_setting[i])) salt_ok = 0;
  errno = 0;
  bool ok = __CPROVER_file_local_crypt_bcrypt_c_BF_crypt(in_key, in_setting, out, &data, 16);
  int e = errno;
  VF_ASSERT(ok == (shape && cost >= 4 && cost <= 31 && salt_ok), "C06/C10: bcrypt accepts exactly the settings $2[abxy]$DD$ + 22 salt characters with DD in 04..31");
  if (ok) {
    for (int i = 0; i < 28; i++) VF_ASSERT(out[i] == (unsigned char)in_setting[i], "C01/C06: bcrypt output begins with the setting's 28 leading characters");
    VF_ASSERT(bf64((char)out[28]), "C06: canonicalised last salt character is from the alphabet");
    for (int i = 29; i < 60; i++) VF_ASSERT(bf64((char)out[i]), "C06: bcrypt digest characters are from the bcrypt alphabet");
    VF_ASSERT(out[60] == 0, "C06: bcrypt hash is 60 characters, NUL-terminated");
    for (int i = 61; i < 64; i++) VF_ASSERT(out[i] == out0[i], "C04: BF_crypt writes exactly BF_HASH_LENGTH bytes");
    VF_WITNESS("bcrypt accepted");
  } else {
    VF_ASSERT(e == EINVAL, "C05: bcrypt rejects with EINVAL");
    for (int i = 0; i < 64; i++) VF_ASSERT(out[i] == out0[i], "C05: a rejected setting leaves the output untouched");
    VF_WITNESS("bcrypt rejected");
  }
}
