/* C16: MD4/MD5 Update and Final relative to the compression function, by
   induction over updates.  Representation invariant R(ctx): buffer[0..used) holds
   the unprocessed tail, used = lo & 63, (hi,lo) is the byte count.  From an
   ARBITRARY ctx satisfying R (arbitrary counter: any message length so far) and
   arbitrary data of symbolic length <= MAXL:
     Update compresses exactly the whole blocks of  tail || data  in order, keeps
     the rest as the new tail and adds len to the counter             (step)
     Final compresses  tail || 0x80 || 0.. || bitlength(LE)  in one or two blocks
     and serialises a,b,c,d little-endian                            (final)
   Together with Init (tail empty, counter 0, standard IV) this gives: for every
   message and every way of splitting it, the same block sequence is compressed.  */
#include "crypt-port.h"
#ifdef T_MD4
#include "alg-md4.h"
#define CTX MD4_CTX
#define UPDATE MD4_Update
#define FINAL MD4_Final
#define INIT MD4_Init
#else
#include "alg-md5.h"
#define CTX MD5_CTX
#define UPDATE MD5_Update
#define FINAL MD5_Final
#define INIT MD5_Init
#endif
#include "vf.h"
extern unsigned char vf_blk[][64]; extern unsigned vf_blk_n;
#ifndef MAXL
#define MAXL 130
#endif
size_t in_len, in_off;
unsigned char in_data[MAXL + 8];
CTX in_ctx;

void harness(void)
{
  CTX ctx;
  ctx.lo = nondet_u32() & 0x1fffffff; ctx.hi = nondet_u32();
#ifdef USED
  /* case split on the tail length (64 cases, enumerated by the runner): with a
     concrete tail length every buffer index below is concrete */
  ctx.lo = (ctx.lo & ~63u) | USED;
#endif
  ctx.a = nondet_u32(); ctx.b = nondet_u32(); ctx.c = nondet_u32(); ctx.d = nondet_u32();
  for (int i = 0; i < 64; i++) ctx.buffer[i] = nondet_uchar();
  in_ctx = ctx;
  size_t used = ctx.lo & 63;
#ifdef Q_STEP
  in_len = nondet_size_t();
  in_off = ALIGN;                                      /* alignment of the input inside its object */
  __CPROVER_assume(in_len <= MAXL);
  for (size_t i = 0; i < MAXL + 8; i++) in_data[i] = nondet_uchar();
  const unsigned char *data = in_data + in_off;
  UPDATE(&ctx, data, in_len);
  size_t total = used + in_len, nb = total / 64, r = total % 64;
  VF_ASSERT(vf_blk_n == nb, "C16: Update compresses exactly the whole blocks of tail||data");
  for (size_t k = 0; k < 3; k++)
    for (size_t i = 0; i < 64; i++)
      if (k < nb) {
        size_t pos = k * 64 + i;
        unsigned char want = pos < used ? in_ctx.buffer[pos] : data[pos - used];
        VF_ASSERT(vf_blk[k][i] == want, "C16: compressed blocks are the bytes of tail||data in order");
      }
  for (size_t i = 0; i < 64; i++)
    if (i < r) {
      size_t pos = nb * 64 + i;
      unsigned char want = pos < used ? in_ctx.buffer[pos] : data[pos - used];
      VF_ASSERT(ctx.buffer[i] == want, "C16: the unprocessed tail is kept in the buffer");
    }
  uint64_t cnt0 = ((uint64_t)in_ctx.hi << 29) | in_ctx.lo, cnt1 = cnt0 + in_len;
  VF_ASSERT(ctx.lo == (uint32_t)(cnt1 & 0x1fffffff) && ctx.hi == (uint32_t)(cnt1 >> 29), "C16: byte counter advances by len (with carry into hi)");
  if (nb >= 1) VF_WITNESS("at least one block");
#endif
#ifdef Q_FINAL
  uint8_t dg[16];
  FINAL(dg, &ctx);
  unsigned nbk = used < 56 ? 1 : 2;
  VF_ASSERT(vf_blk_n == nbk, "C16: Final pads into one block, or two when fewer than 9 bytes are free");
  for (unsigned k = 0; k < 2; k++)
    for (size_t i = 0; i < 64; i++)
      if (k < nbk) {
        size_t pos = k * 64 + i, end = nbk * 64;
        uint64_t bits = (uint64_t)in_ctx.lo << 3;    /* low word: (lo << 3) truncated to 32 bits, high word: hi */
        unsigned char want;
        if (pos < used) want = in_ctx.buffer[pos];
        else if (pos == used) want = 0x80;
        else if (pos < end - 8) want = 0;
        else if (pos < end - 4) want = (unsigned char)((uint32_t)bits >> (8 * (pos - (end - 8))));
        else want = (unsigned char)(in_ctx.hi >> (8 * (pos - (end - 4))));
        VF_ASSERT(vf_blk[k][i] == want, "C16: padding is 0x80, zeros and the little-endian bit length");
      }
  VF_WITNESS("padding checked");
#endif
#ifdef Q_INIT
  INIT(&ctx);
  VF_ASSERT(ctx.lo == 0 && ctx.hi == 0, "C16: Init: empty message");
  VF_ASSERT(ctx.a == 0x67452301 && ctx.b == 0xefcdab89 && ctx.c == 0x98badcfe && ctx.d == 0x10325476, "C16: Init: RFC 1320/1321 initial state");
  VF_WITNESS("init");
#endif
}
