/* C11 / C12 / C10 (gensalt side): the real crypt_gensalt_rn + gensalt_<m>_rn with a
   symbolic 64-bit count and symbolic random bytes, against the documented cost
   function (doc/crypt.5, doc/crypt_gensalt.3) decoded INDEPENDENTLY from the
   generated string.  -DM_<method> selects the specification block.
   -DTWO_RB adds the injectivity query of C12 (second run, different bytes in the
   consumed window => different setting).  */
#include "crypt-port.h"
#include <errno.h>
#include "vf.h"

#ifndef NRB
#define NRB 16
#endif
#define OSZ CRYPT_GENSALT_OUTPUT_SIZE

unsigned long in_count;
unsigned char in_rbytes[NRB], in_rbytes2[NRB];
int in_nrbytes;
static char out[OSZ], out2[OSZ];

static int a64(unsigned char c)   /* inverse of the ./0-9A-Za-z alphabet, -1 if not in it */
{
  if (c == '.') return 0;
  if (c == '/') return 1;
  if (c >= '0' && c <= '9') return 2 + (c - '0');
  if (c >= 'A' && c <= 'Z') return 12 + (c - 'A');
  if (c >= 'a' && c <= 'z') return 38 + (c - 'a');
  return -1;
}

/* parse a decimal field at s, terminated by `term`; returns length or 0 */
static unsigned dec(const char *s, char term, unsigned long *v)
{
  unsigned long acc = 0; unsigned n = 0;
  for (unsigned i = 0; i < 21; i++) {
    if (n == i) {
      if (s[i] >= '0' && s[i] <= '9') { acc = acc * 10 + (unsigned long)(s[i] - '0'); n = i + 1; }
    }
  }
  *v = acc;
  return s[n] == term ? n : 0;
}

static _Bool pre(const char *s, const char *p)
{
  for (unsigned i = 0; p[i]; i++) if (s[i] != p[i]) return 0;
  return 1;
}

void harness(void)
{
  in_count = nondet_ulong();
#ifdef COUNT_MAX
  __CPROVER_assume(in_count <= COUNT_MAX);
#endif
#ifdef COUNT_MIN
  __CPROVER_assume(in_count >= COUNT_MIN);
#endif
  in_nrbytes = NRB;
  static char rb[NRB], rb2[NRB];
  for (int i = 0; i < NRB; i++) { in_rbytes[i] = nondet_uchar(); rb[i] = (char)in_rbytes[i]; }

  errno = 0;
  char *r = crypt_gensalt_rn(PREFIX_STR, in_count, rb, NRB, out, OSZ);
  int e = errno;
  unsigned long c = in_count;

  /* ----- the documented function of count, per method ----- */
#if defined M_sha256crypt || defined M_sha512crypt
  VF_ASSERT(r != 0, "C11: linear-cost method accepts every count");
  if (r) {
    unsigned long want = c == 0 ? 5000 : c < 1000 ? 1000 : c > 999999999 ? 999999999 : c;
    unsigned long got = 5000;
    if (pre(out + 3, "rounds=")) {
      unsigned n = dec(out + 10, '$', &got);
      VF_ASSERT(n >= 1 && out[10] != '0', "C11: rounds field is a decimal number without leading zero followed by '$'");
      VF_ASSERT(got != 5000, "C10: the default round count is never spelled out (crypt rejects an explicit rounds=5000)");
    }
    VF_ASSERT(got == want, "C11: sha256/512crypt rounds = count clamped to 1000..999999999, 0 selects 5000");
    VF_ASSERT(got >= 1000, "C11: never cheaper than the method minimum");
    VF_WITNESS("cost checked");
  }
#elif defined M_fixed
  if (c != 0) VF_ASSERT(r == 0 && e == EINVAL, "C11: fixed-cost method rejects every count but 0 with EINVAL");
  else VF_ASSERT(r != 0, "C11: fixed-cost method accepts count 0");
  if (r) VF_WITNESS("cost checked");
#ifndef COUNT_MAX
  if (!r) VF_WITNESS("count rejected");
#endif
#elif defined M_bsdicrypt
  VF_ASSERT(r != 0, "C11: bsdicrypt accepts every count");
  if (r) {
    unsigned long want = (c == 0 ? 725 : c > 0xffffff ? 0xffffff : c) | 1;
    int d0 = a64((unsigned char)out[1]), d1 = a64((unsigned char)out[2]), d2 = a64((unsigned char)out[3]), d3 = a64((unsigned char)out[4]);
    VF_ASSERT(out[0] == '_' && d0 >= 0 && d1 >= 0 && d2 >= 0 && d3 >= 0, "C11: bsdicrypt count field is four base-64 characters");
    unsigned long got = (unsigned long)d0 | ((unsigned long)d1 << 6) | ((unsigned long)d2 << 12) | ((unsigned long)d3 << 18);
    VF_ASSERT(got == want, "C11: bsdicrypt count = odd(count clamped to 2^24-1), 0 selects 725");
    VF_WITNESS("cost checked");
  }
#elif defined M_bcrypt
  {
    unsigned long want = c == 0 ? 5 : c;
    if (want < 4 || want > 31) { VF_ASSERT(r == 0 && e == EINVAL, "C11: bcrypt rejects counts outside 4..31 with EINVAL"); VF_WITNESS("count rejected"); }
    else {
      VF_ASSERT(r != 0, "C11: bcrypt accepts 0 and 4..31");
      if (r) {
        VF_ASSERT(out[4] >= '0' && out[4] <= '9' && out[5] >= '0' && out[5] <= '9' && out[6] == '$', "C11: bcrypt cost is two decimal digits");
        VF_ASSERT((unsigned long)((out[4] - '0') * 10 + (out[5] - '0')) == want, "C11: bcrypt cost = count, 0 selects 5");
        VF_WITNESS("cost checked");
      }
    }
  }
#elif defined M_yescrypt
  {
    unsigned long want = c == 0 ? 5 : c;
    if (c > 11) { VF_ASSERT(r == 0 && e == EINVAL, "C11: yescrypt rejects counts above 11 with EINVAL"); VF_WITNESS("count rejected"); }
    else {
      VF_ASSERT(r != 0, "C11: yescrypt accepts 0..11");
      if (r) {
        const char *p = out + YPRE;      /* "$y$" or "$gy$" */
        /* flavor 'j' (YESCRYPT_DEFAULTS), then N_log2-1 and r-1 as single base-64 digits */
        VF_ASSERT(p[0] == 'j', "C11: yescrypt flavour is the default one");
        int nl = a64((unsigned char)p[1]) + 1, rr = a64((unsigned char)p[2]) + 1;
        unsigned long wn = want < 3 ? want + 9 : want + 7, wr = want < 3 ? 8 : 32;
        VF_ASSERT((unsigned long)nl == wn && (unsigned long)rr == wr && p[3] == '$', "C11: yescrypt N,r are the documented function of count");
        VF_WITNESS("cost checked");
      }
    }
  }
#elif defined M_scrypt
  {
    unsigned long want = c == 0 ? 7 : c;
    if (want < 6 || want > 11) { VF_ASSERT(r == 0 && e == EINVAL, "C11: scrypt rejects counts outside 6..11 with EINVAL"); VF_WITNESS("count rejected"); }
    else {
      VF_ASSERT(r != 0, "C11: scrypt accepts 0 and 6..11");
      if (r) {
        VF_ASSERT((unsigned long)a64((unsigned char)out[3]) == want + 7, "C11: scrypt N = 2^(count+7)");
        /* r = 32, p = 1 as 30-bit little-endian base-64 */
        VF_ASSERT(a64((unsigned char)out[4]) == 32 && out[5] == '.' && out[6] == '.' && out[7] == '.' && out[8] == '.', "C11: scrypt r = 32");
        VF_ASSERT(a64((unsigned char)out[9]) == 1 && out[10] == '.' && out[11] == '.' && out[12] == '.' && out[13] == '.', "C11: scrypt p = 1");
        VF_WITNESS("cost checked");
      }
    }
  }
#elif defined M_sha1crypt
  VF_ASSERT(r != 0, "C11: sha1crypt accepts every count");
  if (r) {
    unsigned long cc = c == 0 ? 262144 : c < 4 ? 4 : c > 0xffffffffUL ? 0xffffffffUL : c;
    unsigned long got;
    unsigned n = dec(out + 6, '$', &got);
    VF_ASSERT(pre(out, "$sha1$") && n >= 1 && (out[6] != '0' || n == 1), "C11: sha1crypt iteration field is a decimal number followed by '$'");
    VF_ASSERT(got <= cc && got > cc - cc / 4, "C11: sha1crypt iterations lie in the randomised window (count - count/4, count]");
    VF_ASSERT(got >= 3, "C11: never cheaper than the method minimum");
    VF_WITNESS("cost checked");
  }
#elif defined M_sunmd5
  VF_ASSERT(r != 0, "C11: sunmd5 accepts every count");
  if (r) {
    unsigned long got;
    VF_ASSERT(pre(out, "$md5,rounds="), "C11: sunmd5 setting carries an explicit rounds field");
    unsigned n = dec(out + 12, '$', &got);
    VF_ASSERT(n >= 1 && out[12] != '0', "C11: sunmd5 rounds field is a decimal number without leading zero followed by '$'");
    unsigned long lo = c < 32768 ? 32768 : c;
    unsigned long rnd = ((unsigned long)in_rbytes[0] << 8) | in_rbytes[1];
#ifdef KF_F4_EXCLUDE
    /* known finding F4 (known_findings.json): counts so large that the generated value
       wraps in crypt's 32-bit arithmetic; that witness class is reported by its own query */
    __CPROVER_assume(got <= 0xffffffffUL - 4096);
#endif
    unsigned long cl = lo > 0xffffffffUL - 65536 ? 0xffffffffUL - 65536 : lo;
    VF_ASSERT(got == cl + rnd, "C11: sunmd5 rounds = clamped count + 16 random bits (window [count, count+65535])");
    VF_ASSERT(got <= 0xffffffffUL, "C11: sunmd5 rounds fit the documented 32-bit range");
    VF_ASSERT(got >= 32768, "C11: never fewer than 32768 extra rounds");
    /* the cost crypt APPLIES: crypt-sunmd5.c adds the field to 4096 in unsigned int */
    unsigned int applied = 4096u + (unsigned int)got;
    VF_ASSERT(applied >= 4096u + 32768u, "C11: the cost crypt applies to the generated setting is never below the method minimum");
    VF_WITNESS("cost checked");
  }
#endif

#ifdef STD_SALT_CHARS
  /* C12: with 16+ random bytes and the documented buffer the salt has at least the
     method's standard size: count the trailing run of salt characters (a final
     '$' terminator, where the method emits one, is skipped) */
  if (r) {
    size_t n = 0;
    for (size_t i = 0; i < OSZ; i++) if (out[i] != 0 && n == i) n = i + 1;
    size_t end = n;
    if (end > 0 && out[end - 1] == '$') end--;
    size_t run = 0;
    for (size_t k = 0; k < STD_SALT_CHARS + 2; k++)
      if (run == k && end > k && (a64((unsigned char)out[end - 1 - k]) >= 0)) run = k + 1;
    VF_ASSERT(run >= STD_SALT_CHARS, "C12: salt has at least the method's standard size");
  }
#endif
#ifdef TWO_RB
  /* C12: the salt is an injective encoding of the consumed random bytes */
  if (r) {
    _Bool differ = 0;
    for (int i = 0; i < NRB; i++) {
      in_rbytes2[i] = nondet_uchar(); rb2[i] = (char)in_rbytes2[i];
      if (i >= WIN_LO && i < WIN_HI && in_rbytes2[i] != in_rbytes[i]) differ = 1;
#ifdef WIN_MASK6
      /* DES salts consume 6 bits of each byte */
      if (i >= WIN_LO && i < WIN_HI) differ = 0;
#endif
    }
#ifdef WIN_MASK6
    for (int i = WIN_LO; i < WIN_HI; i++) if ((in_rbytes2[i] & 0x3f) != (in_rbytes[i] & 0x3f)) differ = 1;
#endif
    __CPROVER_assume(differ);
    char *r2 = crypt_gensalt_rn(PREFIX_STR, in_count, rb2, NRB, out2, OSZ);
    VF_ASSERT(r2 != 0, "C12: success does not depend on the byte values");
    if (r2) {
      _Bool same = 1;
      for (int i = 0; i < OSZ; i++) if (out[i] != out2[i]) same = 0;
      VF_ASSERT(!same, "C12: different random bytes in the consumed window give a different setting");
      VF_WITNESS("two different salts");
    }
  }
#endif
}
