/* C16: SHA-1 (alg-sha1.c) process_bytes / finish_ctx relative to the compression
   function, by induction over updates; tail length USED fixed per query.  */
#include "crypt-port.h"
#include "alg-sha1.h"
#include "vf.h"
extern unsigned char vf_blk[][64]; extern unsigned vf_blk_n; extern uint32_t vf_state32[];
size_t in_len;
unsigned char in_data[MAXL + 8];
struct sha1_ctx in_ctx;
void harness(void)
{
  struct sha1_ctx ctx;
  for (int i = 0; i < 5; i++) ctx.state[i] = nondet_u32();
  for (int i = 0; i < 64; i++) ctx.buffer[i] = nondet_uchar();
  /* alg-sha1.c pads byte by byte, re-deriving the fill level from count[0] each time;
     CBMC only folds that when count[0] is concrete, so the low word is fixed per
     query (COUNT0HI: an ordinary value and one just below the carry into count[1]);
     the high word stays arbitrary */
  ctx.count[0] = (COUNT0HI & ~0x1ffu) | ((uint32_t)USED << 3);
  ctx.count[1] = nondet_u32();
  in_ctx = ctx;
  size_t used = USED;
#ifdef Q_STEP
  in_len = nondet_size_t();
  __CPROVER_assume(in_len <= MAXL);
  for (size_t i = 0; i < MAXL + 8; i++) in_data[i] = nondet_uchar();
  const unsigned char *data = in_data + ALIGN;
  sha1_process_bytes(data, &ctx, in_len);
  size_t total = used + in_len, nb = total / 64, r = total % 64;
  VF_ASSERT(vf_blk_n == nb, "C16: process_bytes compresses exactly the whole blocks of tail||data");
  for (size_t k = 0; k < 3; k++)
    for (size_t i = 0; i < 64; i++)
      if (k < nb) {
        size_t pos = k * 64 + i;
        unsigned char want = pos < used ? in_ctx.buffer[pos] : data[pos - used];
        VF_ASSERT(vf_blk[k][i] == want, "C16: compressed blocks are the bytes of tail||data in order");
      }
  for (size_t i = 0; i < 64; i++)
    if (i < r) {
      size_t pos = nb * 64 + i;
      unsigned char want = pos < used ? in_ctx.buffer[pos] : data[pos - used];
      VF_ASSERT(ctx.buffer[i] == want, "C16: the unprocessed tail is kept in the buffer");
    }
  uint64_t c0 = ((uint64_t)in_ctx.count[1] << 32) | in_ctx.count[0], c1 = c0 + ((uint64_t)in_len << 3);
  VF_ASSERT(ctx.count[0] == (uint32_t)c1 && ctx.count[1] == (uint32_t)(c1 >> 32), "C16: 64-bit bit counter advances by 8*len with carry");
  if (nb >= 1) VF_WITNESS("at least one block");
#endif
#ifdef Q_FINAL
  unsigned char dg[20];
  sha1_finish_ctx(&ctx, dg);
  unsigned nbk = used < 56 ? 1 : 2;
  VF_ASSERT(vf_blk_n == nbk, "C16: finish pads into one block, or two when the length field does not fit");
  uint64_t bits = ((uint64_t)in_ctx.count[1] << 32) | in_ctx.count[0];
  for (unsigned k = 0; k < 2; k++)
    for (size_t i = 0; i < 64; i++)
      if (k < nbk) {
        size_t pos = k * 64 + i, end = nbk * 64;
        unsigned char want;
        if (pos < used) want = in_ctx.buffer[pos];
        else if (pos == used) want = 0x80;
        else if (pos < end - 8) want = 0;
        else want = (unsigned char)(bits >> (8 * (7 - (pos - (end - 8)))));
        VF_ASSERT(vf_blk[k][i] == want, "C16: padding is 0x80, zeros and the big-endian bit length");
      }
  for (size_t i = 0; i < 20; i++)
    VF_ASSERT(dg[i] == (unsigned char)(vf_state32[i / 4] >> (8 * (3 - i % 4))), "C16: digest is the big-endian serialisation of the final state");
  VF_WITNESS("padding checked");
#endif
}
