/* C13 (and the safety half of C04/C10 for gensalt): crypt_gensalt_rn with a
   symbolic output_size over a buffer of exactly that many bytes.
   -DPREFIX_STR="..." fixes the prefix (one query per method), -DPREFIX_NULL
   passes NULL.  -DTWO_RUN adds the monotonicity / leading-part query.  */
#include "crypt-port.h"
#include <errno.h>
#include <stdlib.h>
#include "vf.h"

#ifndef MAX_RB
#define MAX_RB 24
#endif
#ifndef MAX_OSIZE
#define MAX_OSIZE 256
#endif
/* no successful setting is longer than this (asserted: < CRYPT_GENSALT_OUTPUT_SIZE) */
#define SCAN_MAX (MAX_OSIZE < CRYPT_GENSALT_OUTPUT_SIZE ? MAX_OSIZE : CRYPT_GENSALT_OUTPUT_SIZE)

unsigned long in_count;
int in_nrbytes;
int in_osize;
int in_osize2;
_Bool in_rb_null;
unsigned char in_rbytes[MAX_RB > 0 ? MAX_RB : 1];

static int okchar(unsigned char c)
{
  return c > 0x20 && c < 0x7f && c != ':' && c != ';' && c != '*' && c != '!' && c != '\\';
}

void harness(void)
{
#ifdef PREFIX_NULL
  const char *prefix = 0;
#else
  const char *prefix = PREFIX_STR;
#endif
  in_count = nondet_ulong();
#ifdef COUNT_FIXED
  __CPROVER_assume(in_count == COUNT_FIXED);
  in_count = COUNT_FIXED;     /* let constant propagation see it */
#endif
#ifdef COUNT_MIN
  __CPROVER_assume(in_count >= COUNT_MIN);
#endif
#ifdef COUNT_SMALL
  /* decimal printing of a full 64-bit count is exercised in C11; here the
     count classes of the property text: small, powers of ten +-1, huge */
#endif
  in_nrbytes = nondet_int();
  in_osize = nondet_int();
  in_rb_null = nondet_bool();
  __CPROVER_assume(in_osize >= MIN_OSIZE && in_osize <= MAX_OSIZE);
  __CPROVER_assume(in_nrbytes >= 0 && in_nrbytes <= MAX_RB);

  /* Placement of the caller's buffer.
     PLACE_END : the buffer is the last osz bytes of a fixed object, so out[osz]
       is one past the object and every access (read or write) at or beyond
       output_size is an out-of-object access for CBMC.  Accesses go through a
       symbolic offset, so this is used for the small sizes.
     PLACE_BASE: the buffer starts a MAX_OSIZE-byte object with arbitrary
       contents; a write at or beyond output_size is caught by comparing with a
       snapshot (the prior contents are arbitrary, so any stray write can be made
       visible by the solver).  Constant offsets: cheap for large sizes.
     (A symbolic-size malloc block sends CBMC through its unbounded-array
     theory: 31M clauses for one query.)  */
  size_t osz = in_osize > 0 ? (size_t)in_osize : 0;
  static char vf_outbuf[MAX_OSIZE > 0 ? MAX_OSIZE : 1];
  static char vf_shadow[MAX_OSIZE > 0 ? MAX_OSIZE : 1];
  for (size_t i = 0; i < sizeof vf_outbuf; i++) { vf_outbuf[i] = nondet_char(); vf_shadow[i] = vf_outbuf[i]; }
#ifdef PLACE_BASE
  char *out = vf_outbuf;
#else
  char *out = vf_outbuf + (sizeof vf_outbuf - osz);
#endif

  static char vf_rbbuf[MAX_RB > 0 ? MAX_RB : 1];
  char *rb;
  if (in_rb_null) {
    rb = 0;
    /* documented: nrbytes ignored when rbytes is NULL */
  } else {
    for (size_t i = 0; i < sizeof vf_rbbuf; i++) { in_rbytes[i] = nondet_uchar(); vf_rbbuf[i] = (char)in_rbytes[i]; }
    rb = vf_rbbuf + (sizeof vf_rbbuf - (size_t)in_nrbytes);
  }

  errno = 0;
  char *r = crypt_gensalt_rn(prefix, in_count, rb, in_nrbytes, out, in_osize);
  int e = errno;

#ifdef PLACE_BASE
  for (size_t i = 0; i < sizeof vf_outbuf; i++)
    if (i >= osz)
      VF_ASSERT(vf_outbuf[i] == vf_shadow[i], "C13: no write at or beyond output_size");
#endif

  if (r) {
    VF_ASSERT(r == out, "C13: success returns the output buffer");
    VF_ASSERT(in_osize >= 3, "C13: no success for sizes < 3");
    /* scan with constant indices (cheap for the solver) */
    size_t n = osz;
    _Bool seen = 0;
    for (size_t i = 0; i < SCAN_MAX; i++)
      if (i < osz && !seen) {
        if (out[i] == 0) { seen = 1; n = i; }
        else VF_ASSERT(okchar((unsigned char)out[i]), "C10: setting is passwd(5)-safe printable ASCII");
      }
    VF_ASSERT(seen, "C13: result NUL-terminated inside output_size");
    VF_ASSERT(n >= 1, "C13: successful setting is not empty");
    VF_ASSERT(out[0] != '*', "C13: successful setting does not start with '*'");
#ifdef MIN_OUT_LEN
    VF_ASSERT(n >= MIN_OUT_LEN, "C12: a successful setting carries at least the method's minimal salt (too-short random input is EINVAL)");
#endif
    if (in_rb_null) {
      extern unsigned vf_rand_calls; extern size_t vf_rand_len;
      VF_ASSERT(vf_rand_calls == 1 && vf_rand_len >= 1 && vf_rand_len <= 255, "C12: rbytes == NULL draws the bytes from the OS source exactly once");
#ifdef EXPECT_NRB
      VF_ASSERT(vf_rand_len == EXPECT_NRB, "C12: rbytes == NULL draws the method's full number of random bytes, whatever nrbytes says");
#endif
    }
    VF_ASSERT(n < CRYPT_GENSALT_OUTPUT_SIZE, "C10: setting shorter than CRYPT_GENSALT_OUTPUT_SIZE");
#ifndef PREFIX_NULL
    {
      const char *p = PREFIX_STR;
      for (size_t i = 0; p[i] != 0 && i < PREFIX_TAGLEN; i++)
        VF_ASSERT(out[i] == p[i], "C10: setting begins with the selected tag");
    }
#endif
#ifndef EXPECT_NO_SUCCESS
    VF_WITNESS("gensalt success");
#endif
  } else {
    VF_ASSERT(e == ERANGE || e == EINVAL, "C13: failure errno is ERANGE or EINVAL");
    if (in_osize >= 3) {
      VF_ASSERT(out[0] == '*' && out[1] == '0' && out[2] == 0, "C13: failure token *0 left in buffer");
    } else if (in_osize == 2) {
      VF_ASSERT(out[0] == '*' && out[1] == 0, "C13: failure token * for size 2");
      VF_ASSERT(e == ERANGE, "C13: size 2 is ERANGE");
    } else if (in_osize == 1) {
      VF_ASSERT(out[0] == 0, "C13: empty string for size 1");
      VF_ASSERT(e == ERANGE, "C13: size 1 is ERANGE");
    } else {
      VF_ASSERT(e == ERANGE, "C13: size <= 0 is ERANGE");
    }
#if MIN_OSIZE < 3
    if (in_osize < 3) VF_WITNESS("gensalt tiny size");
#endif
#if !defined EXPECT_NO_SUCCESS && !defined EXPECT_NO_ERANGE
    if (in_osize >= 3 && e == ERANGE) VF_WITNESS("gensalt ERANGE");
#endif
#ifndef EXPECT_NO_EINVAL
    if (e == EINVAL) VF_WITNESS("gensalt EINVAL");
#endif
  }
#ifdef EXPECT_ALWAYS_192
  /* CRYPT_GENSALT_OUTPUT_SIZE always suffices (never ERANGE) */
  if (in_osize >= CRYPT_GENSALT_OUTPUT_SIZE)
    VF_ASSERT(r != 0 || e == EINVAL, "C13: CRYPT_GENSALT_OUTPUT_SIZE bytes always suffice");
#endif

#ifdef TWO_RUN
  /* Same inputs, larger buffer: success is monotone and the smaller result is a
     leading part of the larger one (equal from CRYPT_GENSALT_OUTPUT_SIZE on). */
  if (!in_rb_null) {
    in_osize2 = nondet_int();
    __CPROVER_assume(in_osize2 > in_osize && in_osize2 <= MAX_OSIZE + 64);
    size_t osz2 = in_osize2 > 0 ? (size_t)in_osize2 : 0;
    static char vf_outbuf2[MAX_OSIZE + 64];
    char *out2 = vf_outbuf2;
    errno = 0;
    char *r2 = crypt_gensalt_rn(prefix, in_count, rb, in_nrbytes, out2, in_osize2);
    int e2 = errno;
    if (r) {
      size_t n = 0;
      for (size_t i = 0; i < SCAN_MAX; i++) if (i < osz && out[i] != 0 && n == i) n = i + 1;
      VF_ASSERT(r2 != 0, "C13: success is monotone in output_size");
      if (r2) {
        for (size_t i = 0; i < SCAN_MAX; i++)
          if (i < n)
            VF_ASSERT(out2[i] == out[i], "C13: smaller-buffer result is a leading part of the larger-buffer result");
        if (in_osize >= CRYPT_GENSALT_OUTPUT_SIZE)
          VF_ASSERT(out2[n] == 0, "C13: results equal from CRYPT_GENSALT_OUTPUT_SIZE on");
#ifndef EXPECT_NO_SUCCESS
        VF_WITNESS("two-run both succeed");
#endif
      }
    } else if (e == EINVAL && in_osize >= 3) {
      VF_ASSERT(r2 == 0 && e2 == EINVAL, "C13: EINVAL does not depend on output_size");
    }
  }
#endif
}
