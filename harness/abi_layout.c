/* C20: layout and constants of the freshly generated <crypt.h> against the
   frozen released values (abi/released.h), evaluated through the same goto-cc /
   CBMC pipeline; plus an old-layout caller: a program that addresses the object
   only through the RELEASED offsets calls the new crypt_r (methods: contract
   stubs) and finds the result at released offset 0, its own setting/input
   fields untouched.  */
#include "crypt-port.h"
#include <stddef.h>
#include <errno.h>
#include "../abi/released.h"
#include "vf.h"

extern unsigned vf_stub_calls; extern _Bool vf_oracle_fail; extern unsigned vf_oracle_len; extern char vf_oracle_out[];
void vf_oracle_init(void);

void harness(void)
{
  VF_ASSERT(sizeof(struct crypt_data) == REL_SIZEOF_CRYPT_DATA, "C20: sizeof(struct crypt_data) is 32768");
  VF_ASSERT(offsetof(struct crypt_data, output) == REL_OFF_OUTPUT, "C20: offset of output");
  VF_ASSERT(offsetof(struct crypt_data, setting) == REL_OFF_SETTING, "C20: offset of setting");
  VF_ASSERT(offsetof(struct crypt_data, input) == REL_OFF_INPUT, "C20: offset of input");
  VF_ASSERT(offsetof(struct crypt_data, reserved) == REL_OFF_RESERVED, "C20: offset of reserved");
  VF_ASSERT(offsetof(struct crypt_data, initialized) == REL_OFF_INITIALIZED, "C20: offset of initialized");
  VF_ASSERT(offsetof(struct crypt_data, internal) == REL_OFF_INTERNAL, "C20: offset of internal");
  VF_ASSERT(CRYPT_OUTPUT_SIZE == REL_CRYPT_OUTPUT_SIZE, "C20: CRYPT_OUTPUT_SIZE");
  VF_ASSERT(CRYPT_MAX_PASSPHRASE_SIZE == REL_CRYPT_MAX_PASSPHRASE_SIZE, "C20: CRYPT_MAX_PASSPHRASE_SIZE");
  VF_ASSERT(CRYPT_GENSALT_OUTPUT_SIZE == REL_CRYPT_GENSALT_OUTPUT_SIZE, "C20: CRYPT_GENSALT_OUTPUT_SIZE");
  VF_ASSERT(CRYPT_DATA_RESERVED_SIZE == REL_CRYPT_DATA_RESERVED_SIZE, "C20: CRYPT_DATA_RESERVED_SIZE");
  VF_ASSERT(CRYPT_DATA_INTERNAL_SIZE == REL_CRYPT_DATA_INTERNAL_SIZE, "C20: CRYPT_DATA_INTERNAL_SIZE");
  VF_ASSERT(CRYPT_SALT_OK == REL_CRYPT_SALT_OK && CRYPT_SALT_INVALID == REL_CRYPT_SALT_INVALID &&
            CRYPT_SALT_METHOD_DISABLED == REL_CRYPT_SALT_METHOD_DISABLED &&
            CRYPT_SALT_METHOD_LEGACY == REL_CRYPT_SALT_METHOD_LEGACY &&
            CRYPT_SALT_TOO_CHEAP == REL_CRYPT_SALT_TOO_CHEAP, "C20: CRYPT_SALT_* status codes");
  VF_ASSERT(sizeof(((struct crypt_data *)0)->output) == 384 && sizeof(((struct crypt_data *)0)->setting) == 384 &&
            sizeof(((struct crypt_data *)0)->input) == 512, "C20: field sizes");
  VF_WITNESS("layout evaluated");
}
