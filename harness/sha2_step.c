/* C16: SHA-256 / SHA-512 Update and Final relative to the compression function,
   by induction over updates (same scheme as md_step.c).  The tail length USED is
   fixed per query (case split enumerated by the runner); the bit counter is
   otherwise arbitrary (any message length so far).  */
#include "crypt-port.h"
#ifdef T_SHA256
#include "alg-sha256.h"
#define CTX SHA256_CTX
#define UPDATE SHA256_Update
#define FINAL SHA256_Final
#define BLK 64
#define LENB 8       /* bytes of the length field */
#define DGL 32
#else
#include "alg-sha512.h"
#define CTX SHA512_CTX
#define UPDATE SHA512_Update
#define FINAL SHA512_Final
#define BLK 128
#define LENB 16
#define DGL 64
#endif
#include "vf.h"
extern unsigned char vf_blk2[][128]; extern unsigned vf_blk_n;
extern uint32_t vf_state32[]; extern uint64_t vf_state64[];
size_t in_len;
unsigned char in_data[MAXL + 8];
CTX in_ctx;

void harness(void)
{
  CTX ctx;
  for (int i = 0; i < 8; i++) ctx.state[i] = 0;
  for (int i = 0; i < BLK; i++) ctx.buf[i] = nondet_uchar();
#ifdef T_SHA256
  ctx.count = (nondet_u64() & ~(uint64_t)0x1ff) | ((uint64_t)USED << 3);
  uint64_t hi0 = 0, lo0 = ctx.count;
#else
  ctx.count[0] = nondet_u64();
  ctx.count[1] = (nondet_u64() & ~(uint64_t)0x3ff) | ((uint64_t)USED << 3);
  uint64_t hi0 = ctx.count[0], lo0 = ctx.count[1];
#endif
  in_ctx = ctx;
  size_t used = USED;
#ifdef Q_STEP
  in_len = nondet_size_t();
  __CPROVER_assume(in_len <= MAXL);
  for (size_t i = 0; i < MAXL + 8; i++) in_data[i] = nondet_uchar();
  const unsigned char *data = in_data + ALIGN;
  UPDATE(&ctx, data, in_len);
  size_t total = used + in_len, nb = total / BLK, r = total % BLK;
  VF_ASSERT(vf_blk_n == nb, "C16: Update compresses exactly the whole blocks of tail||data");
  for (size_t k = 0; k < 3; k++)
    for (size_t i = 0; i < BLK; i++)
      if (k < nb) {
        size_t pos = k * BLK + i;
        unsigned char want = pos < used ? in_ctx.buf[pos] : data[pos - used];
        VF_ASSERT(vf_blk2[k][i] == want, "C16: compressed blocks are the bytes of tail||data in order");
      }
  for (size_t i = 0; i < BLK; i++)
    if (i < r) {
      size_t pos = nb * BLK + i;
      unsigned char want = pos < used ? in_ctx.buf[pos] : data[pos - used];
      VF_ASSERT(ctx.buf[i] == want, "C16: the unprocessed tail is kept in the buffer");
    }
  uint64_t add = (uint64_t)in_len << 3, lo1 = lo0 + add, hi1 = hi0 + (lo1 < add ? 1 : 0);
#ifdef T_SHA256
  VF_ASSERT(ctx.count == lo1, "C16: bit counter advances by 8*len");
#else
  VF_ASSERT(ctx.count[1] == lo1 && ctx.count[0] == hi1, "C16: 128-bit bit counter advances by 8*len with carry");
#endif
  if (nb >= 1) VF_WITNESS("at least one block");
#endif
#ifdef Q_FINAL
  unsigned char dg[DGL];
  FINAL(dg, &ctx);
  unsigned nbk = used < BLK - LENB ? 1 : 2;
  VF_ASSERT(vf_blk_n == nbk, "C16: Final pads into one block, or two when the length field does not fit");
  for (unsigned k = 0; k < 2; k++)
    for (size_t i = 0; i < BLK; i++)
      if (k < nbk) {
        size_t pos = k * BLK + i, end = nbk * BLK;
        unsigned char want;
        if (pos < used) want = in_ctx.buf[pos];
        else if (pos == used) want = 0x80;
        else if (pos < end - LENB) want = 0;
        else {
          size_t j = pos - (end - LENB);          /* big-endian bit length */
#ifdef T_SHA256
          want = (unsigned char)(lo0 >> (8 * (7 - j)));
#else
          want = j < 8 ? (unsigned char)(hi0 >> (8 * (7 - j))) : (unsigned char)(lo0 >> (8 * (15 - j)));
#endif
        }
        VF_ASSERT(vf_blk2[k][i] == want, "C16: padding is 0x80, zeros and the big-endian bit length");
      }
  for (size_t i = 0; i < DGL; i++) {
#ifdef T_SHA256
    unsigned char want = (unsigned char)(vf_state32[i / 4] >> (8 * (3 - i % 4)));
#else
    unsigned char want = (unsigned char)(vf_state64[i / 8] >> (8 * (7 - i % 8)));
#endif
    VF_ASSERT(dg[i] == want, "C16: digest is the big-endian serialisation of the final state");
  }
  VF_WITNESS("padding checked");
#endif
}
