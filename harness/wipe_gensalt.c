/* C09d: crypt_gensalt_rn with rbytes == NULL erases the random bytes it drew, on
   success and on every failure after the draw.  The arc4random_buf model records
   the buffer and the position in the wipe log; a wipe of that buffer covering the
   drawn length must have been issued after the draw.  */
#include "crypt-port.h"
#include <errno.h>
#include "vf.h"
extern void *vf_rand_ptr; extern size_t vf_rand_len; extern unsigned vf_rand_calls, vf_rand_at;
extern const void *vf_wipe_ptr[]; extern size_t vf_wipe_len[]; extern unsigned vf_wipe_n;
unsigned long in_count; int in_osize;
void harness(void)
{
  static char out[CRYPT_GENSALT_OUTPUT_SIZE];
  in_count = nondet_ulong();
  in_osize = nondet_int();
  __CPROVER_assume(in_osize >= 0 && in_osize <= CRYPT_GENSALT_OUTPUT_SIZE);
  char *r = crypt_gensalt_rn(PREFIX_STR, in_count, 0, 0, out, in_osize);
  if (vf_rand_calls) {
    _Bool wiped = 0;
    for (unsigned i = 0; i < 8; i++)
      if (i < vf_wipe_n && i >= vf_rand_at && vf_wipe_ptr[i] == vf_rand_ptr && vf_wipe_len[i] >= vf_rand_len) wiped = 1;
    VF_ASSERT(vf_wipe_n <= 8, "C09: wipe log large enough");
    VF_ASSERT(wiped, "C09: crypt_gensalt erases the random bytes it drew (success or failure)");
    if (r) VF_WITNESS("entropy drawn, success");
    if (!r) VF_WITNESS("entropy drawn, failure");
  }
}
