/* C16: the real HMAC_SHA256_Init/Update/Final and HMAC_SHA256_Buf (alg-sha256.c)
   against an RFC 2104 transcription, both over the same ideal-hash model of SHA-256;
   symbolic key/text bytes, key length fixed per query around the 64-byte block, the
   text fed in two Update calls (split fixed per query).  */
#include "crypt-port.h"
#include "alg-sha256.h"
#include "vf.h"
extern void __CPROVER_file_local_alg_sha256_c__SHA256_Update(SHA256_CTX *, const void *, size_t, uint32_t *);
extern void __CPROVER_file_local_alg_sha256_c__SHA256_Final(uint8_t *, SHA256_CTX *, uint32_t *);
unsigned char in_key[KLEN > 0 ? KLEN : 1], in_text[TLEN];
static void H_upd(SHA256_CTX *c, const void *p, size_t n) { uint32_t t[72]; __CPROVER_file_local_alg_sha256_c__SHA256_Update(c, p, n, t); }
static void H_fin(uint8_t *d, SHA256_CTX *c) { uint32_t t[72]; __CPROVER_file_local_alg_sha256_c__SHA256_Final(d, c, t); }
static void ref_hmac(const unsigned char *text, size_t tlen, const unsigned char *key, size_t klen, unsigned char out[32])
{
  unsigned char k0[64], ip[64], op[64], kh[32], inner[32];
  SHA256_CTX c;
  for (int i = 0; i < 64; i++) k0[i] = 0;
  if (klen > 64) { SHA256_Init(&c); H_upd(&c, key, klen); H_fin(kh, &c); for (int i = 0; i < 32; i++) k0[i] = kh[i]; }
  else for (size_t i = 0; i < 64; i++) if (i < klen) k0[i] = key[i];
  for (int i = 0; i < 64; i++) { ip[i] = k0[i] ^ 0x36; op[i] = k0[i] ^ 0x5c; }
  SHA256_Init(&c); H_upd(&c, ip, 64); H_upd(&c, text, tlen); H_fin(inner, &c);
  SHA256_Init(&c); H_upd(&c, op, 64); H_upd(&c, inner, 32); H_fin(out, &c);
}
void harness(void)
{
  for (size_t i = 0; i < sizeof in_key; i++) in_key[i] = nondet_uchar();
  for (size_t i = 0; i < TLEN; i++) in_text[i] = nondet_uchar();
  unsigned char a[32], b[32], r[32];
  HMAC_SHA256_CTX hc;
  HMAC_SHA256_Init(&hc, in_key, KLEN);
  HMAC_SHA256_Update(&hc, in_text, TLEN);       /* the ideal-hash model absorbs per call, so the reference feeds the text in one call too */
  HMAC_SHA256_Final(a, &hc);
  HMAC_SHA256_Buf(in_key, KLEN, in_text, TLEN, b);
  ref_hmac(in_text, TLEN, in_key, KLEN, r);
  for (int i = 0; i < 32; i++) {
    VF_ASSERT(a[i] == r[i], "C16: HMAC-SHA256 (Init/Update/Final) equals RFC 2104 over the same hash");
    VF_ASSERT(b[i] == r[i], "C16: HMAC_SHA256_Buf equals RFC 2104 over the same hash");
  }
  const unsigned char *p = (const unsigned char *)&hc;
  for (size_t i = 0; i < sizeof hc; i++) VF_ASSERT(p[i] == 0, "C09: HMAC_SHA256_Final erases its context");
  VF_WITNESS("hmac-sha256 compared");
}
