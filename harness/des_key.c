/* C17 Q3/Q4: des_set_key against the FIPS 46-3 key schedule for a symbolic 64-bit
   key (hence parity bits are ignored: the reference never reads them), and
   des_set_salt is the 24-bit reversal.  */
#include "crypt-port.h"
#include "alg-des.h"
#include "ref_des.h"
#include "vf.h"

unsigned char in_key[8];
uint32_t in_salt;

void harness(void)
{
  struct des_ctx ctx, ctx2;
  uint64_t k = 0, k48[16];
  unsigned char key2[8];
  for (int i = 0; i < 8; i++) { in_key[i] = nondet_uchar(); k = (k << 8) | in_key[i]; key2[i] = in_key[i] ^ (nondet_bool() ? 1 : 0); }
  des_set_key(&ctx, in_key);
  ref_des_keysched(k, k48);
  for (int i = 0; i < 16; i++) {
    VF_ASSERT(ctx.keysl[i] == (uint32_t)(k48[i] >> 24), "C17: des_set_key round key (upper 24 bits) equals FIPS 46-3 PC1/shift/PC2");
    VF_ASSERT(ctx.keysr[i] == (uint32_t)(k48[i] & 0xffffff), "C17: des_set_key round key (lower 24 bits) equals FIPS 46-3 PC1/shift/PC2");
  }
  /* parity bits (least significant bit of each key byte) are ignored */
  des_set_key(&ctx2, key2);
  for (int i = 0; i < 16; i++)
    VF_ASSERT(ctx.keysl[i] == ctx2.keysl[i] && ctx.keysr[i] == ctx2.keysr[i], "C17: key parity bits are ignored");
  in_salt = nondet_u32();
  des_set_salt(&ctx, in_salt);
  uint32_t rev = 0;
  for (int i = 0; i < 24; i++) if (in_salt & (1u << i)) rev |= 1u << (23 - i);
  VF_ASSERT(ctx.saltbits == rev, "C17: des_set_salt is the 24-bit reversal of the salt");
  des_set_salt(&ctx, 0);
  VF_ASSERT(ctx.saltbits == 0, "C17: salt 0 is plain DES");
  VF_WITNESS("key schedule compared");
}
