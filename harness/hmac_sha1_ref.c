/* C16: the real hmac_sha1_process_data against an RFC 2104 transcription, both
   over the same ideal-hash (uninterpreted) model of SHA-1; symbolic key and text
   bytes, key length fixed per query around the 64-byte block size.  */
#include "crypt-port.h"
#include "alg-hmac-sha1.h"
#include "alg-sha1.h"
#include "vf.h"
unsigned char in_key[KLEN > 0 ? KLEN : 1], in_text[TLEN];
static void ref_hmac(const unsigned char *text, size_t tlen, const unsigned char *key, size_t klen, unsigned char out[20])
{
  unsigned char k0[64], ip[64], op[64], kh[20], inner[20];
  struct sha1_ctx c;
  for (int i = 0; i < 64; i++) k0[i] = 0;
  if (klen > 64) {                       /* RFC 2104: keys LONGER than B are hashed first */
    sha1_init_ctx(&c); sha1_process_bytes(key, &c, klen); sha1_finish_ctx(&c, kh);
    for (int i = 0; i < 20; i++) k0[i] = kh[i];
  } else {
    for (size_t i = 0; i < 64; i++) if (i < klen) k0[i] = key[i];
  }
  for (int i = 0; i < 64; i++) { ip[i] = k0[i] ^ 0x36; op[i] = k0[i] ^ 0x5c; }
  sha1_init_ctx(&c); sha1_process_bytes(ip, &c, 64); sha1_process_bytes(text, &c, tlen); sha1_finish_ctx(&c, inner);
  sha1_init_ctx(&c); sha1_process_bytes(op, &c, 64); sha1_process_bytes(inner, &c, 20); sha1_finish_ctx(&c, out);
}
void harness(void)
{
  for (size_t i = 0; i < sizeof in_key; i++) in_key[i] = nondet_uchar();
  for (size_t i = 0; i < TLEN; i++) in_text[i] = nondet_uchar();
  unsigned char a[20], b[20];
  hmac_sha1_process_data(in_text, TLEN, in_key, KLEN, a);
  ref_hmac(in_text, TLEN, in_key, KLEN, b);
  for (int i = 0; i < 20; i++) VF_ASSERT(a[i] == b[i], "C16: HMAC-SHA1 equals RFC 2104 over the same hash");
  VF_WITNESS("hmac compared");
}
