import sys,json,os
sys.path.insert(0,'/verif')
from vf.core import *
from props.methods import *
b=Build('t8')
qs=[method_query(BY_NAME[n],"m-%s-osize"%n,max_s=int(os.environ.get('MS','8')),max_p=1,extra_defs=["SYM_OUT_SIZE"],timeout=int(os.environ.get('TO','1500'))) for n in sys.argv[1:]]
rs=run_queries(b,qs)
for r in rs:
    print(r.name,r.status,r.detail[:300])
