import sys,json
sys.path.insert(0,'/verif')
from vf.core import *
from props.common import *
b=Build('t2')
def q(name,defs,unwind=100,hl=120,to=400,harness="gensalt_c13.c",**kw):
    return Query(name,harness,units=GENSALT_UNITS,models=["libc.c"],defs=defs,unwind=unwind,loops=[("^harness$",None,hl,False)],timeout=to,**kw)
base=['PREFIX_STR="$y$"',"PREFIX_TAGLEN=3"]
qs=[
 q("y-base-rb18-c5",base+["MIN_OSIZE=49","MAX_OSIZE=200","PLACE_BASE","MAX_RB=18","COUNT_FIXED=5","EXPECT_NO_ERANGE"],hl=270),
 q("y-base-rb18-cbig",base+["MIN_OSIZE=49","MAX_OSIZE=200","PLACE_BASE","MAX_RB=18","COUNT_MIN=12","EXPECT_NO_SUCCESS"],hl=270),
 q("y-end-rb18-c5",base+["MIN_OSIZE=-2","MAX_OSIZE=48","PLACE_END","MAX_RB=18","COUNT_FIXED=5","EXPECT_NO_SUCCESS"],hl=270),
 q("y-base-rb70-c5",base+["MIN_OSIZE=49","MAX_OSIZE=200","PLACE_BASE","MAX_RB=70","COUNT_FIXED=5"],hl=270),
]
qs0=[
 q("y-end-rb18",base+["MIN_OSIZE=-2","MAX_OSIZE=48","PLACE_END","MAX_RB=18","EXPECT_NO_SUCCESS"]),
 q("y-base-rb18",base+["MIN_OSIZE=49","MAX_OSIZE=200","PLACE_BASE","MAX_RB=18"],hl=270),
 q("y-base-rb18-u40",base+["MIN_OSIZE=49","MAX_OSIZE=200","PLACE_BASE","MAX_RB=18"],hl=270,unwind=40),
]
rs=run_queries(b,qs)
