#!/bin/bash
# tools/run_seed.sh <seed-name> <check-id> [extra ./check args]: apply a seeded mutation to /repo, run a check, undo
s=$1; c=$2; shift 2
git -C /repo apply /verif/seeded/$s/patch.diff || exit 9
cd /verif && ./check $c "$@" > /tmp/seedrun-$s-$c.log 2>&1; rc=$?
git -C /repo checkout -- .
echo "seed=$s check=$c exit=$rc $(grep -c '^VIOLATION' /tmp/seedrun-$s-$c.log) violation line(s); $(grep -m1 '  query' /tmp/seedrun-$s-$c.log | cut -c1-200)"
