#!/bin/bash
# tools/confirm_seed.sh <worktree> <seed dir (with patch.diff, demo.c, build_and_run.sh)>
# confirms: patch applies, tree builds, full test suite passes, demo fails with patch, passes without
wt=$1; sd=$2
cd "$wt" && git checkout -q -- . && make -j4 >/dev/null 2>&1
log=$sd/confirm.log; : > $log
git apply "$sd/patch.diff" || { echo "APPLY-FAILED" >> $log; exit 1; }
make -j4 >/dev/null 2>&1 || { echo "BUILD-FAILED" >> $log; git checkout -q -- .; exit 1; }
make -j4 check > $sd/check.out 2>&1
grep -E "^# (PASS|FAIL|ERROR):" $sd/check.out | tr '\n' ' ' >> $log; echo >> $log
(cd $sd && bash ./build_and_run.sh "$wt" > demo_mut.out 2>&1); echo "demo_with_patch_exit=$?" >> $log
git checkout -q -- . && make -j4 >/dev/null 2>&1
(cd $sd && bash ./build_and_run.sh "$wt" > demo_clean.out 2>&1); echo "demo_clean_exit=$?" >> $log
cat $log
