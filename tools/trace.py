#!/usr/bin/env python3
"""tools/trace.py <out.json> <property-substring> [lhs-prefix ...] : print matching assignments from the failing trace"""
import json,sys
d=json.load(open(sys.argv[1]))
pat=sys.argv[2]; pre=tuple(sys.argv[3:])
for it in d:
    if 'result' in it:
        for p in it['result']:
            if p['status']=='FAILURE' and (pat in p['property'] or pat in p['description']):
                print("==",p['property'],p['description'])
                last={}
                for s in p.get('trace',[]):
                    if s['stepType'] in ('function-call',) and not pre:
                        print('call',s['function']['displayName'],s.get('sourceLocation',{}).get('line'))
                    if s['stepType']=='assignment':
                        l=s.get('lhs','')
                        if pre and l.startswith(pre):
                            v=s['value']; last[l]=v.get('data') if 'data' in v else '<agg>'
                for k,v in last.items(): print(k,v)
                sys.exit(0)
