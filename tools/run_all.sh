#!/bin/bash
# tools/run_all.sh [quick|thorough] [ids...]: run the registered checks one after another (from the
# directory this script lives in), print a summary line per check
tier=${1:-quick}; shift
ids=${@:-C01 C02 C03 C04 C05 C06 C07 C09 C10 C11 C12 C13 C14 C15 C16 C17 C18 C19 C20}
cd "$(dirname "$0")/.."
mkdir -p build
for id in $ids; do
  s=$(date +%s)
  ./check $id --tier $tier > build/runall-$tier-$id.log 2>&1; rc=$?
  e=$(date +%s)
  echo "$id exit=$rc wall=$((e-s))s violations=$(grep -c '^VIOLATION' build/runall-$tier-$id.log) known=$(grep -c '^KNOWN-FINDING' build/runall-$tier-$id.log) errors=$(grep -c '^ERROR' build/runall-$tier-$id.log) $(grep '^ERROR' build/runall-$tier-$id.log | cut -c1-160 | head -3 | tr '\n' '|')"
done
