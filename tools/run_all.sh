#!/bin/bash
# tools/run_all.sh [quick|thorough] [ids...]: run the registered checks one after another, print a summary
tier=${1:-quick}; shift
ids=${@:-C01 C02 C03 C04 C05 C06 C07 C09 C10 C11 C12 C13 C14 C15 C16 C17 C18 C19 C20}
cd /verif
for id in $ids; do
  s=$(date +%s)
  ./check $id --tier $tier > /tmp/runall-$id.log 2>&1; rc=$?
  e=$(date +%s)
  echo "$id exit=$rc wall=$((e-s))s violations=$(grep -c '^VIOLATION' /tmp/runall-$id.log) known=$(grep -c '^KNOWN-FINDING' /tmp/runall-$id.log) errors=$(grep -c '^ERROR' /tmp/runall-$id.log)"
done
