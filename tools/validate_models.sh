#!/bin/bash
# Native validation of the trusted reference models (not a property check):
#  - models/ref_des.c against three published DES known answers
set -e
d=$(mktemp -d /verif/build/validate.XXXX)
cat > $d/kat.c <<'EOC'
#include <stdio.h>
#include "ref_des.h"
int main(void){
  unsigned long long c=ref_des(0x0123456789ABCDEFULL,0x133457799BBCDFF1ULL,0);
  unsigned long long p=ref_des(c,0x133457799BBCDFF1ULL,1);
  unsigned long long c2=ref_des(0x4E6F772069732074ULL,0x0123456789ABCDEFULL,0);
  printf("%016llX %016llX %016llX\n",c,p,c2);
  return !(c==0x85E813540F0AB405ULL && p==0x0123456789ABCDEFULL && c2==0x3FA40E8A984D4815ULL);
}
EOC
gcc -I/verif/models -o $d/kat $d/kat.c /verif/models/ref_des.c && $d/kat && echo "ref_des: KAT ok"
rm -rf $d
