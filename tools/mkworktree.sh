#!/bin/bash
# tools/mkworktree.sh <dir>: scratch git worktree of /repo HEAD, configured and built
set -e
d=$1
git -C /repo worktree add -q --detach "$d" HEAD
cd /repo
# autotools output is untracked in /repo; copy what configure needs (not build products)
for f in configure Makefile.in aclocal.m4 config.h.in INSTALL; do cp -p $f "$d/"; done
rsync -a --ignore-existing build-aux/ "$d/build-aux/"
cd "$d"
./configure -q >/dev/null 2>&1
make -j8 >/dev/null 2>&1
echo "built $d"
