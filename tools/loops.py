#!/usr/bin/env python3
"""tools/loops.py unit.c ... : list loops (id, line, source text) of repo units"""
import sys,os,re,subprocess
sys.path.insert(0,'/verif')
from vf.core import Build, src_line
b=Build('loops')
for u in sys.argv[1:]:
    o=b.cc(u)
    for lid,(f,line,fn) in b.loops(o).items():
        print("%-45s L%-4d %s"%(lid,line,src_line(f,line).strip()[:80]))
b.cleanup()
