#!/usr/bin/env python3
"""Regenerate MANIFEST.json from the property modules (props/Cxx.py META)."""
import importlib, json, os, sys
ROOT = os.path.dirname(os.path.dirname(os.path.abspath(__file__)))
sys.path.insert(0, ROOT)
props = [json.loads(l) for l in open(os.path.join(ROOT, "properties.jsonl"))]
checks, na = [], []
NA_REASONS = json.load(open(os.path.join(ROOT, "tools", "not_applicable.json")))
for p in props:
    pid = p["id"]
    if not os.path.exists(os.path.join(ROOT, "props", pid + ".py")):
        na.append({"property_id": pid, "reason": NA_REASONS.get(pid, "check not built yet in this round (design in DESIGN.md)")})
        continue
    m = importlib.import_module("props." + pid)
    meta = m.META
    checks.append({
        "property_id": pid,
        "quick_cmd": "./check %s --tier quick" % pid,
        "thorough_cmd": "./check %s --tier thorough" % pid,
        "evidence_file": "/verif/evidence/%s.json" % pid,
        "replay_cmd_template": "./check %s --replay {path}" % pid,
        "engine": "cbmc",
        "level_claimed": {"category": meta.get("level", "other"), "text": meta["claim"], "design_ref": "DESIGN.md section 3, " + pid},
        "level_note": meta["note"],
        "technique": meta.get("technique", "bounded symbolic model checking of the real C units with CBMC 6.11 (SAT back end)"),
    })
man = {
    "version": 1,
    "setup_cmd": "true",
    "hooks": {
        "guard": "LIBXCRYPT_VERIF",
        "enable": "checks compile /repo/lib/*.c with goto-cc -DLIBXCRYPT_VERIF (no build of the shared library is needed)",
        "baseline_off_cmd": "cd /repo && make -j8 check",
        "source_commits": json.load(open(os.path.join(ROOT, "tools", "hook_commits.json"))),
        "add_only": True,
    },
    "engines": [{"name": "cbmc", "path": "/usr/local/bin/cbmc", "serves_properties": [c["property_id"] for c in checks],
                 "kind_free_text": "CBMC 6.11.0 bounded model checker (goto-cc front end, MiniSat/CaDiCaL back end) driven by vf/core.py"}],
    "checks": checks,
    "not_applicable": na,
    "notes": "All checks are solver-based (CBMC) on the real translation units of /repo's working tree; see DESIGN.md.",
}
json.dump(man, open(os.path.join(ROOT, "MANIFEST.json"), "w"), indent=1)
print("checks:", [c["property_id"] for c in checks], "n/a:", [n["property_id"] for n in na])
