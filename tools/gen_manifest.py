#!/usr/bin/env python3
"""Regenerate MANIFEST.json from the property modules (props/Cxx.py META)."""
import importlib, json, os, sys
ROOT = os.path.dirname(os.path.dirname(os.path.abspath(__file__)))
sys.path.insert(0, ROOT)
props = [json.loads(l) for l in open(os.path.join(ROOT, "properties.jsonl"))]
checks, na = [], []
TECH = {
 "C01": "CBMC (SAT) three-run relational query on the real crypt_<m>_rn over uninterpreted digest/cipher kernels",
 "C02": "CBMC miter: real method vs transcription of the published algorithm over the same uninterpreted primitive; primitives via C16/C17",
 "C03": "CBMC two-run query modulo an instantiated injectivity (ideal-kernel) axiom on uninterpreted kernels",
 "C04": "CBMC bounded model checking with pointer/bounds/overflow/shift instrumentation, exact-fit objects, havoc kernels, cut stretch loops",
 "C05": "CBMC: real crypt.c over contract stubs from an arbitrary prior output + real methods over havoc kernels",
 "C06": "CBMC: real methods over havoc kernels (every digest value) against a per-method shape recogniser and the real filter/lookup",
 "C07": "CBMC non-interference (two runs, independent residue) over uninterpreted kernels + API harness from arbitrary object state",
 "C09": "CBMC: arbitrary pre-state, wipe log model of explicit_bzero, real Final functions from arbitrary contexts",
 "C10": "CBMC composition of the real gensalt and the real crypt parser of the same method (havoc kernels)",
 "C11": "CBMC with a 64-bit symbolic count against an independent cost decoder/specification; decimal printing as constrained uninterpreted digits",
 "C12": "CBMC two-run injectivity query on the salt encoders; symbolic nrbytes with exact-fit random buffer",
 "C13": "CBMC with symbolic output_size and exact-fit buffer placement; two-run monotonicity query; assert()/abort as violations",
 "C14": "CBMC inductive step over the caller-visible (data,size) invariant with a failing/moving realloc model and lifetime tracking",
 "C15": "CBMC with nondeterministic failure of every allocator-like call (all fault subsets) and a region ledger",
 "C16": "CBMC inductive Update/Final step from an arbitrary invariant-satisfying context with a block-logging compression stub; HMAC vs RFC 2104 over an ideal hash",
 "C17": "CBMC compositional miters against a KAT-validated FIPS 46-3 reference (1- and 2-round cut loop, key schedule, obsolete API over a functional core)",
 "C18": "CBMC: every byte string up to the bound against an independent classifier",
 "C19": "enumerated build configurations x CBMC dispatch query per configuration; two-build miter for code shared under #if",
 "C20": "CBMC evaluation of sizeof/offsetof/constants of the regenerated header against frozen released values; alias agreement query",
}
NA_REASONS = json.load(open(os.path.join(ROOT, "tools", "not_applicable.json")))
for p in props:
    pid = p["id"]
    if not os.path.exists(os.path.join(ROOT, "props", pid + ".py")):
        na.append({"property_id": pid, "reason": NA_REASONS.get(pid, "check not built yet in this round (design in DESIGN.md)")})
        continue
    m = importlib.import_module("props." + pid)
    meta = m.META
    checks.append({
        "property_id": pid,
        "quick_cmd": "./check %s --tier quick" % pid,
        "thorough_cmd": "./check %s --tier thorough" % pid,
        "evidence_file": "/verif/evidence/%s.json" % pid,
        "replay_cmd_template": "./check %s --replay {path}" % pid,
        "engine": "cbmc",
        "level_claimed": {"category": meta.get("level", "other"), "text": meta["claim"], "design_ref": "DESIGN.md section 3, " + pid},
        "level_note": meta["note"],
        "technique": meta.get("technique", TECH.get(pid, "bounded symbolic model checking of the real C units with CBMC 6.11 (SAT back end)")),
    })
man = {
    "version": 1,
    "setup_cmd": "true",
    "hooks": {
        "guard": "LIBXCRYPT_VERIF",
        "enable": "checks compile /repo/lib/*.c with goto-cc -DLIBXCRYPT_VERIF (no build of the shared library is needed)",
        "baseline_off_cmd": "cd /repo && make -j8 check",
        "source_commits": json.load(open(os.path.join(ROOT, "tools", "hook_commits.json"))),
        "add_only": True,
    },
    "engines": [{"name": "cbmc", "path": "/usr/local/bin/cbmc", "serves_properties": [c["property_id"] for c in checks],
                 "kind_free_text": "CBMC 6.11.0 bounded model checker (goto-cc front end, MiniSat/CaDiCaL back end) driven by vf/core.py"}],
    "checks": checks,
    "not_applicable": na,
    "notes": "All checks are solver-based (CBMC) on the real translation units of /repo's working tree; see DESIGN.md.",
}
json.dump(man, open(os.path.join(ROOT, "MANIFEST.json"), "w"), indent=1)
print("checks:", [c["property_id"] for c in checks], "n/a:", [n["property_id"] for n in na])
